"""Shared run / search / replay logic of the two grammar properties (C13, C19).
A property module provides cfg = dict(op, oracle, dialect, fn, fn_file, build, norm_tree, rule, kinds)."""
import json
from common import prove, ensure_model_runner, run_oracle, run_model, run_impl, Err
from flow import conclude
from pegcorr import run_both, shrink_text

GEN = "gen_grammar"


def norm_result(cfg, res):
    return [cfg["norm_tree"](t) for t in res] if isinstance(res, list) else res


def spec_failures(cfg, name, cases, impl):
    """the direct statement of the property on the implementation's answers"""
    out = []
    for c, b in zip(cases, impl):
        if name == "valid":
            want = [cfg["norm_tree"](c["tree"])]
            if norm_result(cfg, b) != want:
                out.append({"kind": "roundtrip", "text": c["text"], "tree": c["tree"], "expected": want, "observed": repr(b)})
        elif name == "reject":
            if not (isinstance(b, Err) and b.kind == "ParseException"):
                out.append({"kind": "reject", "text": c["text"], "fault": c["fault"], "expected": "ParseException", "observed": repr(b)})
    return out


def run(ctx, cfg):
    rng, quick = ctx.rng, ctx.tier == "quick"
    OP, ORACLE = cfg["op"], cfg["oracle"]
    nt = cfg["norm_tree"]
    res = prove(ctx)
    if ctx.gen.get(GEN):
        res["ok"] = False
        res["build"].excerpt = "translator failed (fail-closed): " + ctx.gen[GEN]
    runner = ensure_model_runner()
    diffs, spec = [], []
    S = cfg["build"](ctx)
    if runner.ok:
        for name in ("valid", "reject", "ambiguous", "mutated"):
            d, m, i = run_both(ctx, name, [(OP, c["text"]) for c in S[name]])
            diffs += d
            spec += spec_failures(cfg, name, S[name], i)
            if name == "ambiguous":
                # texts outside the round-trip guard: how the implementation (and the model) read them
                amb = {}
                for c, b in zip(S[name], i):
                    k = c.get("fault", "?") + ("/" + c["kind"] if c.get("kind") not in (None, "ambiguous") else "") + \
                        (":rejected" if isinstance(b, Err) else ":accepted")
                    amb[k] = amb.get(k, 0) + 1
                ctx.cov["outside_guard_outcomes"] = amb
        # documents: the document and each of its statements
        reqs, owner = [], []
        for k, dc in enumerate(S["documents"]):
            reqs.append((OP, dc["prologue"] + "".join(dc["texts"])))
            owner.append((k, None))
            for j, t in enumerate(dc["texts"]):
                reqs.append((OP, t))
                owner.append((k, j))
        d, m, i = run_both(ctx, "documents", reqs)
        diffs += d
        parts = {}
        for (k, j), b in zip(owner, i):
            parts.setdefault(k, {})[j] = b
        for k, dc in enumerate(S["documents"]):
            ps = [parts[k][j] for j in range(len(dc["texts"]))]
            want = [nt(t) for t in dc["trees"]]
            got = norm_result(cfg, parts[k][None])
            cat = [nt(t) for p in ps if isinstance(p, list) for t in p]
            if got != want or cat != want:
                spec.append({"kind": "document", "prologue": dc["prologue"], "texts": dc["texts"],
                             "text": dc["prologue"] + "".join(dc["texts"]), "expected": want, "observed": repr(parts[k][None])})
    # files and parser histories need a file system / fresh processes: property oracle, always run
    extra = []
    for dc in S["documents"][: (40 if quick else 400)]:
        extra.append({"kind": "file", "text": dc["prologue"] + "".join(dc["texts"])})
    pool = [c["text"] for c in S["valid"][:200]] + [c["text"] for c in S["reject"][:100]]
    other = ["INPUT(1) = w[1,2]\n", "seesaw[", "", "length a = 5\n", "x = a( b\n", "state e4 = [e4]"]
    # layouts that depend on process-wide pyparsing settings (carriage returns, tabs) are preferred as the probed text, and
    # every history contains at least one call into each dialect (the two grammars share pyparsing's global defaults)
    crpool = [t for t in pool if "\r" in t] or pool
    tabpool = [t for t in pool if "\t" in t] or pool
    kwpool = [c["text"] for c in S["valid"] if c.get("kwcase")] or pool      # literal matching mode is process-wide too
    for j in range(32 if quick else 160):
        before = [[rng.choice(["pil", "seesaw"]), rng.choice(pool + other)] for _ in range(rng.randint(1, 5))]
        before.insert(rng.randrange(len(before) + 1), ["pil", rng.choice(["length a = 5\n", "X = a( b )\r\n", "x = a( b\n"])])
        before.insert(rng.randrange(len(before) + 1), ["seesaw", rng.choice(["INPUT(1) = w[1,2]\n", "seesaw[", "INPUT(1) = w[1,2]\r\n"])])
        extra.append({"kind": "history", "text": rng.choice([crpool, tabpool, kwpool, pool][j % 4]), "before": before})
    extra += reuse_cases(cfg, rng, S, pool + other, quick)
    extra += handle_cases(rng, pool + other, quick)
    out = run_oracle(ORACLE, {"cases": extra})
    spec += out["failures"]
    ctx.cov["oracle_checked"] = out["checked"]
    ctx.cov["spec_checked_on_implementation"] = {"roundtrip": len(S["valid"]), "reject": len(S["reject"]),
                                                 "document": len(S["documents"]), "failures": len(spec)}
    ctx.cov["faults"] = {}
    for c in S["reject"]:
        ctx.cov["faults"][c["fault"]] = ctx.cov["faults"].get(c["fault"], 0) + 1
    ctx.cov["kinds"] = {k: sum(1 for c in S["valid"] if c["kind"] == k) for k in cfg["kinds"]}
    ctx.cov["rule"] = cfg["rule"]
    if cfg.get("partial"):
        ctx.cov["partial"] = cfg["partial"]
    pseudo = [(0, ("spec:" + f["kind"], f.get("text", "")), f.get("expected"), f.get("observed")) for f in spec[:5]]

    def search(_):
        found = []
        for f in spec[:10]:
            found.append(witness(cfg, f))
        # shrink real model/implementation disagreements and look at them with the oracle
        cases = []
        for d in diffs[:3]:
            def bad(t):
                a, b = run_model([(OP, t)], jobs=1)[0], run_impl([(OP, t)], jobs=1)[0]
                return a != b
            cases.append({"kind": "file", "text": shrink_text(d[1][1], bad, budget=80)})
        cases += [{"kind": "roundtrip", "text": c["text"], "tree": c["tree"]} for c in S["valid"]]
        cases += [{"kind": "reject", "text": c["text"], "fault": c["fault"]} for c in S["reject"]]
        cases += [{"kind": "document", "prologue": c["prologue"], "texts": c["texts"]} for c in S["documents"]]
        out = run_oracle(ORACLE, {"cases": cases})
        for f in out["failures"][:10]:
            found.append(witness(cfg, f))
        return found

    conclude(ctx, res, runner, diffs + pseudo, search)


EDITS = ["pop-keyword", "append", "leaves", "clear-top", "clear-deep", "reverse", "all"]


def reuse_cases(cfg, rng, S, pool, quick):
    """a returned token tree belongs to the caller: texts are parsed, the results destroyed in place, and the same texts
    parsed again (one statement of every kind on its own; the same text twice; a document, then its statements; a
    statement repeated inside one document; mixed sequences with rejected texts; through one re-written file; through
    files written once and read by name repeatedly)"""
    by_kind = {}
    for c in S["valid"]:
        by_kind.setdefault(c["kind"], []).append(c["text"])
    out = []
    for j, kind in enumerate(k for k in cfg["kinds"] if k in by_kind):
        out.append({"kind": "reuse", "texts": [rng.choice(by_kind[kind])], "edit": EDITS[j % len(EDITS)], "via": "string"})
    valid = [c["text"] for c in S["valid"]]
    for j in range(35 if quick else 350):
        dc = rng.choice(S["documents"])
        whole = dc["prologue"] + "".join(dc["texts"])
        t = rng.choice(valid)
        shape = j % 5
        if shape == 0:
            texts = [t, t]
        elif shape == 1:
            texts = [whole] + rng.sample(dc["texts"], min(len(dc["texts"]), rng.randint(1, 3)))
        elif shape == 2:
            twice = t.rstrip("\r\n") + "\n" + t
            texts = [twice, t] if rng.random() < 0.5 else [twice]
        elif shape == 3:
            texts = [rng.choice(pool) for _ in range(rng.randint(2, 4))]
            texts.insert(rng.randrange(len(texts) + 1), rng.choice(texts))
        else:
            texts = [whole]
        out.append({"kind": "reuse", "texts": texts, "edit": rng.choice(EDITS), "via": "file" if j % 3 == 2 else "string"})
    # files that are written once and read by name again and again (a library of domain definitions): every edit in turn,
    # on a document, on a document and some of its statements, on one statement read twice, on mixed sequences
    for j in range(2 * len(EDITS) if quick else 20 * len(EDITS)):
        dc = rng.choice(S["documents"])
        whole = dc["prologue"] + "".join(dc["texts"])
        shape = j % 4
        if shape == 0:
            texts = [whole]
        elif shape == 1:
            texts = [whole] + rng.sample(dc["texts"], min(len(dc["texts"]), rng.randint(1, 2)))
        elif shape == 2:
            t = rng.choice(valid)
            texts = [t, t]
        else:
            texts = [rng.choice(pool) for _ in range(rng.randint(2, 3))] + [whole]
        out.append({"kind": "reuse", "texts": texts, "edit": EDITS[j % len(EDITS)], "via": "path"})
    return out


HANDLE_MODES = ["with", "drop", "keep", "stringio", "rewind", "mixed"]


def handle_cases(rng, pool, quick):
    """files parse like their content also when several files are read one after the other through open handles (the batch
    loop): 2..6 accepted and rejected texts, each in its own file, every way of holding / releasing the handle"""
    out = []
    for j in range(36 if quick else 360):
        texts = [rng.choice(pool) for _ in range(rng.randint(2, 6))]
        out.append({"kind": "handles", "texts": texts, "mode": HANDLE_MODES[j % len(HANDLE_MODES)]})
    return out


def snippet_for(cfg, f):
    fn, fn_file = cfg["fn"], cfg["fn_file"]
    k = f["kind"]
    if k == "document":
        return (f"from dsdobjects.dsdparser import {fn} as p; texts = {f['texts']!r}; "
                f"print(p({f.get('prologue', '') !r} + ''.join(texts))); print([t for x in texts for t in p(x)])")
    if k == "history":
        return (f"import dsdobjects.dsdparser as dp\nfor d, t in {f['before']!r}:\n    try: getattr(dp, 'parse_%s_string' % d)(t)\n"
                f"    except Exception: pass\nprint(dp.{fn}({f['text']!r}))")
    if k == "file":
        return (f"from dsdobjects.dsdparser import {fn}, {fn_file}; open('/tmp/c.txt','w',newline='').write({f['text']!r}); "
                f"print({fn_file}('/tmp/c.txt')); print({fn}(open('/tmp/c.txt').read()))")
    return f"from dsdobjects.dsdparser import {fn}; print({fn}({f['text']!r}))   # expected {f.get('expected')!r}"


def witness(cfg, f):
    f = dict(f)
    snippet = f.pop("snippet", None) or snippet_for(cfg, f)     # the oracle supplies the program for histories with edits
    key = {"kind": f["kind"], "text": f.get("text", "")}
    if f.get("fault"):
        key["fault"] = f["fault"]
    return {"key": key, "input": f, "what": f.get("what") or f"{f['kind']}: expected {f.get('expected')!r}, observed {f.get('observed')!r}",
            "snippet": snippet}


def replay(cfg, data):
    f = data.get("input")
    if not f:
        print("replay names a broken link only:", json.dumps(data.get("broken_links"))[:2000])
        return 1
    out = run_oracle(cfg["oracle"], {"cases": [dict(f)]})
    print(json.dumps(out))
    return 1 if out["failures"] else 0
