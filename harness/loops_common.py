"""Request builders and generators shared by the C08 and C09 checks."""
import gen_structs as gs


def table_of(s, brk="+"):
    """pair table of a well-formed structure (generator side only, never an oracle)"""
    strands = s.split(brk)
    flat, k = {}, 0
    for si, x in enumerate(strands):
        for di in range(len(x)):
            flat[k] = [si, di]
            k += 1
        k += 1
    pt = [[None] * len(x) for x in strands]
    for (i, j) in gs.pair_positions(s, brk):
        a, b = flat[i], flat[j]
        pt[a[0]][a[1]] = list(b)
        pt[b[0]][b[1]] = list(a)
    return pt


def unique_stab(s):
    return [[f"d{si}_{di}" for di in range(len(x))] for si, x in enumerate(s.split("+"))]


def unique_seq(s):
    out = []
    for si, x in enumerate(unique_stab(s)):
        out += (["+"] if si else []) + x
    return out


def small_scope(L, nonempty=True):
    return list(gs.all_wf(L, nonempty=nonempty))


def random_multi(rng, max_strands=60, max_depth=100):
    """random well-formed structure with many strands and deep nesting: nicks in
    any loop, several nicks per loop, empty hairpins, multiloops"""
    kind = rng.randrange(5)
    if kind == 0:       # deep stem with nicks sprinkled at all levels
        k = rng.randrange(1, max_depth + 1)
        body = "".join(rng.choice(["(", "(", "(.", "(+.", "(.+."]) for _ in range(k))
        close = "".join(rng.choice([")", ")", ".)", ".+)", "+.)"]) for _ in range(k))
        s = body + rng.choice(["", ".", ".+.", "()", "(+)"]) + close
    elif kind == 1:     # many components side by side / nested
        n = rng.randrange(2, 25)
        s = "+".join(rng.choice(["(+)", ".", "(.+.)", "((+))", "(+(+)+)", "(.)", "(+)+(+)", "(+.+)", "((+)+(+))"]) for _ in range(n))
    elif kind == 2:
        s = gs.random_wf(rng, rng.choice([20, 60, 150]), p_break=rng.choice([0.05, 0.15, 0.3]))
    elif kind == 3:     # multiloop with nicks between the branches
        n = rng.randrange(2, 12)
        s = "(" + "".join(rng.choice(["(+)", "(.)", "+.", ".", "()", "(+(+))", "+.+"]) for _ in range(n)) + ")"
    else:               # components nested inside loops of other components
        k = rng.randrange(1, 15)
        s = "."
        for _ in range(k):
            w = rng.choice(["(%s)", "(+%s+)", "(.+%s+.)", "%s+.", ".+%s", "(%s+.+.)", "((+)%s)"])
            s = w % s
    # no empty strands
    while "++" in s:
        s = s.replace("++", "+.+")
    if s.startswith("+"):
        s = "." + s
    if s.endswith("+"):
        s = s + "."
    if s.count("+") + 1 > max_strands:
        return random_multi(rng, max_strands, max_depth)
    assert gs.is_wf(s) and gs.nonempty_strands(s), s
    return s


def damage(rng, pt):
    """single-fault mutation of a pair table (for the error paths of make_loop_index)"""
    pt = [[None if e is None else list(e) for e in r] for r in pt]
    locs = [(si, di) for si, r in enumerate(pt) for di in range(len(r))]
    if not locs:
        return pt + [[[0, 0]]]
    k = rng.randrange(7)
    si, di = rng.choice(locs)
    if k == 0:
        pt[si][di] = None
    elif k == 1:
        pt[si][di] = list(rng.choice(locs))
    elif k == 2:
        pt[si][di] = [si, di]
    elif k == 3:
        pt[si][di] = [rng.randrange(len(pt) + 2), rng.randrange(4)]
    elif k == 4:
        del pt[si][di]
    elif k == 5:
        pt.insert(rng.randrange(len(pt) + 1), [])
    else:
        sj, dj = rng.choice(locs)
        pt[si][di], pt[sj][dj] = pt[sj][dj], pt[si][di]
    return pt


def shrink_struct(s):
    """smaller well-formed structures with non-empty strands"""
    seen = set()
    for c in gs.shrink_string(s):
        if c and c not in seen and gs.is_wf(c) and gs.nonempty_strands(c):
            seen.add(c)
            yield c
    # remove a matching bracket pair
    for (i, j) in gs.pair_positions(s):
        c = s[:i] + s[i + 1:j] + s[j + 1:]
        if c and c not in seen and gs.is_wf(c) and gs.nonempty_strands(c):
            seen.add(c)
            yield c


def random_connected(rng, size=40, max_depth=100):
    """random connected structure: every loop (the outer one excepted) holds at most one nick"""
    budget = [size]

    def loop(depth, nick_allowed):
        items = []
        n = rng.randrange(0, 4)
        for _ in range(n):
            if budget[0] > 0 and depth < max_depth and rng.random() < 0.6:
                budget[0] -= 1
                items.append("(" + loop(depth + 1, True) + ")")
            else:
                items.append("." * rng.randrange(1, 3))
        if nick_allowed and rng.random() < 0.6:
            items.insert(rng.randrange(len(items) + 1), "+")
        return "".join(items)
    s = loop(0, False)
    if not s:
        s = "."
    # no empty strands
    s = s.replace("(+", "(.+").replace("+)", "+.)") if rng.random() < 0.3 else s
    return s


def random_mixed(rng, max_strands=60):
    while True:
        r = rng.random()
        if r < 0.45:
            s = random_connected(rng, rng.choice([5, 20, 60, 150]))
        elif r < 0.6:     # a few connected pieces side by side or nested in a loop
            ps = [random_connected(rng, rng.choice([3, 10, 30])) for _ in range(rng.randrange(2, 5))]
            s = "+".join(ps) if rng.random() < 0.5 else "(" + "+".join(ps) + ")"
        else:
            s = random_multi(rng, max_strands)
        if gs.is_wf(s) and gs.nonempty_strands(s) and s.count("+") < max_strands:
            return s


def components(s):
    """strand index lists of the connected components (generator side: union-find on table_of)"""
    strands = s.split("+")
    pt = table_of(s)
    par = list(range(len(strands)))

    def find(x):
        while par[x] != x:
            x = par[x]
        return x
    for si, r in enumerate(pt):
        for e in r:
            if e is not None:
                par[find(si)] = find(e[0])
    out = {}
    for x in range(len(strands)):
        out.setdefault(find(x), []).append(x)
    return list(out.values())


def component_complex(seq, s, ids, turn=0):
    """(sequence, structure) of the component with strands `ids`, rotated by `turn`"""
    stab = [x.split(",") for x in ",".join(seq).split(",+,")]
    pt = table_of(s)
    rot = ids[turn:] + ids[:turn]
    sub = {x: j for j, x in enumerate(rot)}
    cs, st = [], []
    for j, x in enumerate(rot):
        if j:
            cs.append("+")
            st.append("+")
        cs += stab[x]
        for di, e in enumerate(pt[x]):
            st.append("." if e is None else ("(" if (j, di) < (sub[e[0]], e[1]) else ")"))
    return cs, st


def periodic_seq(s, unit=("a", "a*", "b", "a", "b*", "b")):
    """every strand of the same length gets the same content: the strand order is periodic wherever the lengths are, while
    the structure need not be (rotations that agree on the sequence but not on the structure)"""
    out = []
    for k, strand in enumerate(s.split("+")):
        if k:
            out.append("+")
        out += list(unit[: len(strand)]) + ["a"] * max(0, len(strand) - len(unit))
    return out


def split_history(rng, s, names=("a", "b"), seq=None):
    """a history for ComplexS.split(): some components exist beforehand (any rotation,
    explicit / automatic / clashing names), unrelated complexes, the complex itself
    named / unnamed / with a name of the automatic form"""
    seq = seq if seq is not None else gs.seq_for(rng, s, names=names)
    pre = []
    for ids in components(s):
        if rng.random() < 0.5:
            cs, st = component_complex(seq, s, ids, rng.randrange(len(ids)))
            pre.append([cs, st, rng.choice([None, None, "x%d" % len(pre), "c1", "c2", "c3"])])
    if rng.random() < 0.3:
        pre.append([[rng.choice(names)], ["."], rng.choice([None, "c2", "c3", "q"])])
    rng.shuffle(pre)
    return [pre, [seq, list(s), rng.choice([None, None, "me", "c1", "c2"])]]


def split_runs(rng, s):
    """runs of split() on one object: [limit, set_id, how] - the generator is advanced at most `limit` times (None: to
    its end) and abandoned (closed / released / left suspended); ComplexS.ID may be assigned before a run (small
    values: the automatic names c1..c6 then clash with, or step over, names that are taken).  Most histories contain
    an abandoned or failed run followed by a complete one."""
    n = len(components(s))
    runs = []
    for _ in range(rng.choice([2, 2, 3, 3, 4])):
        lim = None if rng.random() < 0.4 else rng.randrange(0, n + 1)
        sid = rng.randrange(0, 7) if rng.random() < 0.3 else None
        runs.append([lim, sid, rng.choice(["close", "close", "del", "keep"])])
    if rng.random() < 0.7:
        # ends with a complete run, after moving ComplexS.ID away from a name that may have been refused
        runs.append([None, rng.choice([None, None, rng.randrange(0, 9)]), "close"])
    return runs
