"""Run every translator (coq/gen/*.v regenerated from the current tree)."""
import importlib, os, sys, traceback
sys.path.insert(0, os.path.dirname(os.path.abspath(__file__)))

GENERATORS = ["gen_iupac", "gen_units", "gen_grammar", "gen_globals", "gen_reader"]          # module names harness/gen_<x>.py with a generate() function

def generate(names, strict=True):
    """returns {name: error string or None}"""
    out = {}
    for n in names:
        try:
            importlib.import_module(n).generate()
            out[n] = None
        except Exception as e:
            if strict:
                raise
            traceback.print_exc()
            out[n] = repr(e)
    return out

def generate_all(strict=True):
    return generate(GENERATORS, strict)

if __name__ == "__main__":
    print(generate_all())
