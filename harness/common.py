"""Shared machinery of the checks: paths, Coq build, model / implementation
runners, correspondence, evidence, replay files, known findings."""
import fcntl, hashlib, json, os, random, re, shutil, subprocess, sys, time

VERIF = os.path.dirname(os.path.dirname(os.path.abspath(__file__)))
COQ = os.path.join(VERIF, "coq")
HARNESS = os.path.join(VERIF, "harness")
REPO = os.environ.get("VERIF_REPO", "/repo")
PY = "/venv/bin/python"
GUARD = "DSDOBJECTS_VERIF"

sys.path.insert(0, HARNESS)
from valfmt import enc, dec, Err, norm  # noqa: E402


def env_for_impl():
    e = dict(os.environ)
    e.update({"PYTHONPATH": REPO, "PYTHONHASHSEED": "0", "PIP_NO_INDEX": "1",
              GUARD: "1", "VERIF_REPO": REPO, "PYTHONDONTWRITEBYTECODE": "1"})
    return e


def sh(cmd, timeout=None, cwd=None, env=None, input=None):
    p = subprocess.run(cmd, shell=isinstance(cmd, str), cwd=cwd, env=env, input=input,
                       stdout=subprocess.PIPE, stderr=subprocess.STDOUT, text=True, timeout=timeout)
    return p.returncode, p.stdout


def repo_hashes(paths):
    out = {}
    for p in paths:
        fp = os.path.join(REPO, p)
        try:
            out[p] = hashlib.sha256(open(fp, "rb").read()).hexdigest()
        except OSError:
            out[p] = None
    return out


# --------------------------------------------------------------------------
# Coq build

class BuildLock:
    def __enter__(self):
        self.f = open(os.path.join(COQ, ".build.lock"), "w")
        fcntl.flock(self.f, fcntl.LOCK_EX)
        return self

    def __exit__(self, *a):
        fcntl.flock(self.f, fcntl.LOCK_UN)
        self.f.close()


def write_if_changed(path, text):
    try:
        if open(path).read() == text:
            return False
    except OSError:
        pass
    os.makedirs(os.path.dirname(path), exist_ok=True)
    tmp = path + ".tmp"
    open(tmp, "w").write(text)
    os.replace(tmp, path)
    return True


def ensure_makefile():
    """(re)create the coq_makefile Makefile when the set of .v files changed"""
    vs = []
    for sub in ("theories", "gen", "props"):
        for root, _, files in os.walk(os.path.join(COQ, sub)):
            for f in files:
                if f.endswith(".v"):
                    vs.append(os.path.relpath(os.path.join(root, f), COQ))
    vs.sort()
    proj = "-Q theories DSD\n-Q gen DSDGen\n-Q props DSDProps\n" + "\n".join(vs) + "\n"
    changed = write_if_changed(os.path.join(COQ, "_CoqProject"), proj)
    if changed or not os.path.exists(os.path.join(COQ, "Makefile")):
        rc, out = sh("coq_makefile -f _CoqProject -o Makefile", cwd=COQ, timeout=120)
        if rc != 0:
            raise RuntimeError("coq_makefile failed:\n" + out)


class BuildResult:
    def __init__(self, ok, output, failed_file=None, failed_line=None, failed_lemma=None, excerpt=""):
        self.ok, self.output = ok, output
        self.failed_file, self.failed_line = failed_file, failed_line
        self.failed_lemma, self.excerpt = failed_lemma, excerpt


def _lemma_at(path, line):
    try:
        lines = open(path).read().split("\n")
    except OSError:
        return None
    pat = re.compile(r"^\s*(?:Local\s+|Global\s+)?(Lemma|Theorem|Corollary|Fact|Example|Definition|Fixpoint|Instance|Remark|Proposition)\s+([A-Za-z0-9_']+)")
    for i in range(min(line, len(lines)) - 1, -1, -1):
        m = pat.match(lines[i])
        if m:
            return m.group(2)
    return None


def coq_make(targets, jobs=8, timeout=1500):
    """make the given .vo targets (relative to coq/); returns BuildResult"""
    ensure_makefile()
    rc, out = sh(["timeout", str(timeout), "make", f"-j{jobs}", "--no-print-directory"] + list(targets),
                 cwd=COQ, timeout=timeout + 30)
    if rc == 0:
        return BuildResult(True, out)
    m = re.search(r'File "\./([^"]+)", line (\d+), characters[^\n]*\n((?:.*\n){0,12})', out)
    if m:
        f, ln = m.group(1), int(m.group(2))
        return BuildResult(False, out, f, ln, _lemma_at(os.path.join(COQ, f), ln), m.group(3)[:1500])
    return BuildResult(False, out, excerpt=out[-1500:])


# Axioms declared by the standard library itself that theorems may depend on (each is named in
# DESIGN.md section 9); anything else in a Print Assumptions list fails the check.
_STDLIB_AXIOMS = ["ClassicalDedekindReals.sig_not_dec", "ClassicalDedekindReals.sig_forall_dec", "Classical_Prop.classic",
                  "FunctionalExtensionality.functional_extensionality_dep",
                  "FloatAxioms.mul_spec", "FloatAxioms.div_spec", "FloatAxioms.eqb_spec", "FloatAxioms.abs_spec",
                  "FloatAxioms.SF2Prim_Prim2SF", "FloatAxioms.Prim2SF_valid", "FloatAxioms.Prim2SF_SF2Prim"]
ALLOWED_AXIOMS = set(_STDLIB_AXIOMS) | {a.split(".")[-1] for a in _STDLIB_AXIOMS}
# per property: which of them are expected at all (others are flagged even though they are stdlib axioms)
AXIOMS_BY_PROPERTY = {"C18": ALLOWED_AXIOMS}

PRIMITIVE_PREFIXES = ("PrimFloat.", "Uint63.", "PrimInt63.", "Float64", "Int63", "FloatOps", "PrimArray")


def parse_assumptions(output):
    """Split coqc output of a props file into {theorem: [assumption names]}.
    The props files print `(*THM name*)` markers via idtac-free trick: we rely on
    the order of `Print Assumptions` blocks matching the order of theorems."""
    blocks = []
    cur = None
    for line in output.split("\n"):
        if line.startswith("Closed under the global context"):
            blocks.append([])
            cur = None
        elif line.startswith("Axioms:"):
            cur = []
            blocks.append(cur)
        elif cur is not None:
            # an entry is `name : type` or, for long types, `name` alone followed by indented lines
            m = re.match(r"^([A-Za-z_][A-Za-z0-9_.']*)\s*(:|$)", line)
            if m:
                cur.append(m.group(1))
            elif line.startswith(" ") or line.startswith("\t"):
                pass                    # continuation of a type
            else:
                cur = None              # blank line or other output ends the block
    return blocks


def check_props(pid, timeout=1500):
    """Build props/<pid>.v and its companion files props/<pid><suffix>.v (and everything they need); returns
    dict with ok, obligations [(name, assumptions)], build (BuildResult)."""
    import glob
    files = sorted(f for f in glob.glob(os.path.join(COQ, "props", f"{pid}*.v"))
                   if re.match(rf"^{pid}([a-z][A-Za-z0-9_]*)?\.v$", os.path.basename(f)))
    bad = forbidden_scan()
    res = {"ok": False, "build": None, "obligations": [], "names": [], "forbidden": bad}
    allowed = AXIOMS_BY_PROPERTY.get(pid, set())
    ok = not bad
    for src in files:
        base = os.path.basename(src)[:-2]
        names = re.findall(r"^\s*Theorem\s+([A-Za-z0-9_']+)", open(src).read(), flags=re.M)
        res["names"] += names
        with BuildLock():
            vo = os.path.join(COQ, "props", f"{base}.vo")
            # first everything the props file needs (their output is not parsed: dependencies may print too) ...
            br = coq_make([f"props/{base}.vo"], timeout=timeout)
            if br.ok:
                # ... then the props file alone, so that exactly its Print Assumptions blocks are in the output
                if os.path.exists(vo):
                    os.remove(vo)
                br = coq_make([f"props/{base}.vo"], timeout=timeout)
        res["build"] = br
        if not br.ok:
            res["ok"] = False
            return res
        blocks = parse_assumptions(br.output)
        if len(blocks) != len(names):
            br.ok = False
            br.excerpt = f"{base}.v: expected {len(names)} Print Assumptions blocks, found {len(blocks)}"
            return res
        for n, b in zip(names, blocks):
            extra = [a for a in b if not a.startswith(PRIMITIVE_PREFIXES) and a not in allowed]
            res["obligations"].append({"theorem": n, "assumptions": b, "disallowed": extra})
            if extra:
                ok = False
    res["ok"] = ok and bool(files)
    return res


FORBIDDEN = re.compile(r"\b(Admitted|admit|Axiom|Axioms|Parameter|Parameters|Conjecture|Conjectures|Admit Obligations|bypass_check|Unset Guard Checking|Unset Positivity Checking|Unset Universe Checking|type-in-type|impredicative-set)\b")


def strip_comments(text):
    out, depth, i = [], 0, 0
    while i < len(text):
        if text.startswith("(*", i):
            depth += 1
            i += 2
        elif text.startswith("*)", i) and depth:
            depth -= 1
            i += 2
        else:
            if not depth:
                out.append(text[i])
            i += 1
    return "".join(out)


def forbidden_scan():
    hits = []
    for root, _, files in os.walk(COQ):
        for f in files:
            if f.endswith(".v") or f == "_CoqProject":
                p = os.path.join(root, f)
                body = strip_comments(open(p).read())
                # string literals may legitimately contain the words (error names)
                body = re.sub(r'"[^"]*"', '""', body)
                for m in FORBIDDEN.finditer(body):
                    hits.append(f"{os.path.relpath(p, COQ)}: {m.group(1)}")
    return hits


def ensure_model_runner(timeout=900):
    """build Dispatch.vo, re-extract and recompile the OCaml runner when stale"""
    with BuildLock():
        br = coq_make(["theories/Model/Dispatch.vo"], timeout=timeout)
        if not br.ok:
            return br
        ex = os.path.join(COQ, "extract")
        exe = os.path.join(ex, "modelrun")
        newest = 0
        for sub in ("theories", "gen"):
            for root, _, files in os.walk(os.path.join(COQ, sub)):
                for f in files:
                    if f.endswith(".vo"):
                        newest = max(newest, os.path.getmtime(os.path.join(root, f)))
        for f in ("Extract.v", "driver.ml"):
            newest = max(newest, os.path.getmtime(os.path.join(ex, f)))
        if not os.path.exists(exe) or os.path.getmtime(exe) < newest:
            rc, out = sh("coqc -Q ../theories DSD -Q ../gen DSDGen Extract.v && "
                         "ocamlfind ocamlopt -O3 -w -a model.mli model.ml driver.ml -o modelrun 2>&1 || "
                         "ocamlfind ocamlopt -w -a model.mli model.ml driver.ml -o modelrun",
                         cwd=ex, timeout=timeout)
            if rc != 0:
                return BuildResult(False, out, excerpt=out[-1500:], failed_file="extract/Extract.v")
        return br


# --------------------------------------------------------------------------
# runners

def run_lines(cmd, lines, env=None, timeout=3600, cwd=None):
    data = "\n".join(lines) + "\n"
    p = subprocess.run(cmd, input=data, stdout=subprocess.PIPE, stderr=subprocess.PIPE, text=True,
                       env=env, timeout=timeout, cwd=cwd)
    out = p.stdout.split("\n")
    if out and out[-1] == "":
        out.pop()
    return p.returncode, out, p.stderr


def _chunks(lines, n):
    k = max(1, (len(lines) + n - 1) // n)
    return [lines[i:i + k] for i in range(0, len(lines), k)]


def run_parallel(cmd, lines, env=None, jobs=8, timeout=3600, cwd=None):
    """run a line-in/line-out filter over `lines` in `jobs` parallel processes"""
    import concurrent.futures as cf
    if len(lines) < 200 or jobs <= 1:
        return run_lines(cmd, lines, env=env, timeout=timeout, cwd=cwd)
    parts = _chunks(lines, jobs)
    with cf.ThreadPoolExecutor(len(parts)) as ex:
        rs = list(ex.map(lambda part: run_lines(cmd, part, env=env, timeout=timeout, cwd=cwd), parts))
    rc = max(r[0] for r in rs)
    out = [l for r in rs for l in r[1]]
    err = "".join(r[2] for r in rs)
    return rc, out, err


def run_model(reqs, jobs=8):
    """reqs: list of (op, arg) -> list of decoded results"""
    lines = [enc(op) + " " + enc(arg) for op, arg in reqs]
    rc, out, err = run_parallel(["bash", "-c", "ulimit -s unlimited 2>/dev/null; exec ./modelrun"], lines,
                                jobs=jobs, cwd=os.path.join(COQ, "extract"))
    if rc != 0 or len(out) != len(lines):
        raise RuntimeError(f"model runner failed rc={rc} got {len(out)}/{len(lines)} lines: {err[-500:]}")
    return [norm(dec(l)) for l in out]


def run_impl(reqs, jobs=8, isolate=False):
    lines = [enc(op) + " " + enc(arg) for op, arg in reqs]
    rc, out, err = run_parallel([PY, os.path.join(HARNESS, "implrunner.py")], lines,
                                env=env_for_impl(), jobs=jobs, cwd=HARNESS)
    if rc != 0 or len(out) != len(lines):
        raise RuntimeError(f"implementation runner failed rc={rc} got {len(out)}/{len(lines)} lines: {err[-1500:]}")
    return [norm(dec(l)) for l in out]


def run_oracle(script, payload, timeout=3600):
    """run harness/oracles/<script> in the implementation environment with a JSON
    payload on stdin; returns parsed JSON from stdout"""
    p = subprocess.run([PY, os.path.join(HARNESS, "oracles", script)], input=json.dumps(payload),
                       stdout=subprocess.PIPE, stderr=subprocess.PIPE, text=True,
                       env=env_for_impl(), timeout=timeout, cwd=HARNESS)
    if p.returncode != 0:
        raise RuntimeError(f"oracle {script} failed: {p.stderr[-2000:]}")
    return json.loads(p.stdout)


# --------------------------------------------------------------------------
# check context: evidence, replays, known findings

class Ctx:
    def __init__(self, pid, tier):
        self.pid, self.tier = pid, tier
        self.seed = int(os.environ.get("VERIF_SEED", "20261001"))
        self.rng = random.Random(self.seed)
        self.t0 = time.time()
        self.violations = []          # (replay path, tag)
        self.known_hits = []
        self.cov = {"obligations": 0, "discharged": 0, "checker_cmd": "", "trusted_base": [],
                    "samples": [], "correspondence": {}, "evaluations": 0, "distinct_nontrivial": 0,
                    "rule": ""}
        self.assumptions = []
        self.work = os.path.join(VERIF, "work", pid)
        shutil.rmtree(self.work, ignore_errors=True)
        os.makedirs(self.work, exist_ok=True)
        self.known = load_known(pid)
        # checks of /repo may run concurrently (same generated files); a self-test run against a scratch
        # copy regenerates coq/gen from another tree and therefore excludes every other check while it runs
        self._repolock = open(os.path.join(COQ, ".repo.lock"), "w")
        fcntl.flock(self._repolock, fcntl.LOCK_SH if os.path.abspath(REPO) == "/repo" else fcntl.LOCK_EX)
        # step 1 of every check: regenerate every generated Coq file from the current tree
        import gen_all
        with BuildLock():
            self.gen = gen_all.generate_all(strict=False)
        self.cov["generated"] = {k: (v or "ok") for k, v in self.gen.items()}

    # ---- known findings -------------------------------------------------
    def match_known(self, tag, data):
        for k in self.known:
            if k.get("status") != "open":
                continue
            if k.get("tag") == tag and all(data.get(a) == b for a, b in k.get("match", {}).items()):
                return k
        return None

    # ---- reporting -------------------------------------------------------
    def violation(self, tag, payload, found_input=True):
        """record a violation; payload is JSON-serialisable and must contain what is
        needed to replay.  Returns True when it counts (not a known finding)."""
        k = self.match_known(tag, payload.get("key", {}))
        if k is not None:
            msg = f"KNOWN-FINDING: property={self.pid} {k['what']}"
            if msg not in self.known_hits:
                self.known_hits.append(msg)
                print(msg, flush=True)
            return False
        payload = dict(payload)
        payload.update({"property": self.pid, "tag": tag, "seed": self.seed, "tier": self.tier,
                        "kind": "counterexample" if found_input else "no-failing-input-found",
                        "repo": REPO})
        blob = json.dumps(payload, sort_keys=True, default=str, indent=1)
        h = hashlib.sha256(blob.encode()).hexdigest()[:16]
        d = os.path.join(VERIF, "replays", self.pid)
        os.makedirs(d, exist_ok=True)
        path = os.path.join(d, f"{h}.json")
        if any(v[0] == path for v in self.violations):
            return True
        open(path, "w").write(blob)
        self.violations.append((path, tag, found_input))
        print(f"VIOLATION property={self.pid} replay={path}" + ("" if found_input else " no-failing-input-found"),
              flush=True)
        return True

    def add_eval(self, n, distinct, samples=()):
        self.cov["evaluations"] += n
        self.cov["distinct_nontrivial"] += distinct
        for s in samples:
            if len(self.cov["samples"]) < 12:
                self.cov["samples"].append(s)

    def finish(self):
        ev = {
            "property_id": self.pid, "tier": self.tier, "seed": self.seed, "level": "proof",
            "coverage": self.cov, "assumptions": self.assumptions,
            "wall_s": round(time.time() - self.t0, 2), "violations": len(self.violations),
            "known_findings_hit": self.known_hits,
            "repo": REPO,
        }
        # evidence/ describes /repo itself; self-test runs against scratch copies write elsewhere
        evdir = os.path.join(VERIF, "evidence") if os.path.abspath(REPO) == "/repo" else \
            os.path.join(VERIF, "work", "selftest-evidence")
        os.makedirs(evdir, exist_ok=True)
        open(os.path.join(evdir, f"{self.pid}.json"), "w").write(
            json.dumps(ev, indent=1, sort_keys=True, default=str) + "\n")
        shutil.rmtree(self.work, ignore_errors=True)
        if os.path.abspath(REPO) != "/repo":
            # leave the generated files describing /repo again before anybody else proceeds
            try:
                subprocess.run([PY, os.path.join(HARNESS, "gen_all.py")], env=dict(os.environ, VERIF_REPO="/repo"),
                               stdout=subprocess.DEVNULL, stderr=subprocess.DEVNULL, timeout=600)
            except Exception:
                pass
        fcntl.flock(self._repolock, fcntl.LOCK_UN)
        self._repolock.close()
        return 1 if self.violations else 0


def load_known(pid):
    try:
        ks = json.load(open(os.path.join(VERIF, "known_findings.json")))["findings"]
    except OSError:
        return []
    return [k for k in ks if k.get("property") == pid]


TRUSTED_BASE = [
    "Coq 8.16.1 kernel (coqc; vm_compute used, native_compute not used)",
    "no axioms declared; Print Assumptions output checked per theorem",
    "translators harness/gen_*.py (regenerate coq/gen/*.v from the current tree)",
    "Coq extraction with ExtrOcamlBasic only + extract/driver.ml (model runner)",
    "correspondence harness (harness/*.py) and CPython/pyparsing as the executed implementation",
]


def prove(ctx, extra_gen=()):
    """Step 2 of a check: build props/<pid>.v; fills coverage; returns the result dict."""
    res = check_props(ctx.pid)
    ctx.cov["obligations"] = len(res["names"])
    ctx.cov["discharged"] = sum(1 for o in res["obligations"] if not o["disallowed"]) if res["build"].ok else 0
    ctx.cov["checker_cmd"] = f"make -C {COQ} props/{ctx.pid}.vo  (coqc 8.16.1; Print Assumptions per theorem)"
    ctx.cov["trusted_base"] = list(TRUSTED_BASE)
    ctx.cov["theorems"] = res["obligations"] if res["build"].ok else res["names"]
    if res["forbidden"]:
        ctx.cov["forbidden_constructs"] = res["forbidden"]
    return res


def proof_broken_payload(res):
    br = res["build"]
    return {"broken": "proof", "file": br.failed_file, "line": br.failed_line,
            "lemma": br.failed_lemma, "coqc_excerpt": br.excerpt,
            "disallowed_assumptions": [o for o in res["obligations"] if o.get("disallowed")],
            "forbidden": res["forbidden"]}


def replay_recorded_findings(ctx, names):
    """Replays recorded (open) findings on the implementation; each one that still reproduces goes through
    ctx.violation with key {"witness": name}: a KNOWN-FINDING line while known_findings.json lists it,
    a VIOLATION otherwise."""
    out = run_oracle("findings.py", {"names": list(names)})
    for n, what in out.items():
        if what:
            ctx.violation("counterexample", {"key": {"witness": n}, "input": n, "what": what,
                                             "snippet": f"# harness/oracles/findings.py: {n}()"})
