import os, sys
sys.path.insert(0, os.path.dirname(os.path.abspath(__file__)))
import common, gen_all

def main():
    gen_all.generate_all(strict=False)
    with common.BuildLock():
        common.ensure_makefile()
        rc, out = common.sh(["timeout", "3000", "make", "-j16", "--no-print-directory"], cwd=common.COQ, timeout=3100)
        print(out[-3000:])
        if rc != 0:
            print("setup: Coq build failed (checks will report the broken obligations)")
    br = common.ensure_model_runner()
    print("model runner:", "ok" if br.ok else "FAILED\n" + br.excerpt)
    return 0 if br.ok else 1

if __name__ == "__main__":
    sys.exit(main())
