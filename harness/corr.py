"""Correspondence: run the same requests on the extracted Coq model and on the
implementation, compare canonicalised results, collect distribution statistics."""
import collections
from common import run_model, run_impl, Err, enc

MODEL_FAULTS = {"BadRequest", "BadLine", "OutOfFuel", "Stack"}


def outcome_kind(v):
    return v.kind if isinstance(v, Err) else "value"


def correspond(ctx, name, reqs, canon=None, jobs=8, nontrivial=None, impl_reqs=None):
    """returns list of (index, req, model_result, impl_result) that disagree.  impl_reqs (optional, same length): what the
    implementation is asked instead, e.g. the same request after earlier calls in the same process (implrunner op `after`)"""
    if not reqs:
        return []
    m = run_model(reqs, jobs=jobs)
    i = run_impl(impl_reqs if impl_reqs is not None else reqs, jobs=jobs)
    diffs = []
    kinds = collections.Counter()
    sizes = collections.Counter()
    distinct = set()
    limited = 0
    for k, (rq, a, b) in enumerate(zip(reqs, m, i)):
        if canon:
            a, b = canon(rq[0], a), canon(rq[0], b)
        kinds[rq[0] + ":" + outcome_kind(b)] += 1
        sizes[min(len(enc(rq[1])) // 50 * 50, 2000)] += 1
        if isinstance(b, Err) and b.kind == "RecursionError":
            # CPython's recursion limit is a resource bound the model does not have: counted, not compared
            limited += 1
            continue
        shown = rq if impl_reqs is None else impl_reqs[k]
        if isinstance(a, Err) and a.kind in MODEL_FAULTS:
            diffs.append((k, shown, a, b))
            continue
        if a != b:
            diffs.append((k, shown, a, b))
        elif nontrivial is None or nontrivial(rq, b):
            distinct.add(enc(b) if not isinstance(b, Err) else enc(rq[1]))
    st = ctx.cov["correspondence"].setdefault(name, {"cases": 0, "disagreements": 0, "outcomes": {},
                                                     "request_size_histogram": {}, "distinct_results": 0})
    st["cases"] += len(reqs)
    st["disagreements"] += len(diffs)
    for k, v in kinds.items():
        st["outcomes"][k] = st["outcomes"].get(k, 0) + v
    for k, v in sizes.items():
        st["request_size_histogram"][str(k)] = st["request_size_histogram"].get(str(k), 0) + v
    st["distinct_results"] += len(distinct)
    st["resource_limited(RecursionError)"] = st.get("resource_limited(RecursionError)", 0) + limited
    ctx.add_eval(len(reqs), len(distinct),
                 samples=[{"op": reqs[0][0], "arg": reqs[0][1], "model": repr(m[0]), "impl": repr(i[0])}])
    return diffs


def shrink(req, still_bad, candidates, budget=200):
    """greedy shrinking: candidates(req) yields smaller requests"""
    cur = req
    n = 0
    progress = True
    while progress and n < budget:
        progress = False
        for c in candidates(cur):
            n += 1
            if n > budget:
                break
            if still_bad(c):
                cur = c
                progress = True
                break
    return cur


def disagree_one(req, canon=None):
    a = run_model([req], jobs=1)[0]
    b = run_impl([req], jobs=1)[0]
    if canon:
        a, b = canon(req[0], a), canon(req[0], b)
    return a != b or (isinstance(a, Err) and a.kind in MODEL_FAULTS)


def history_witnesses(diffs):
    """disagreements of view histories (query, turns assignment, query): the direct statement of the property on the
    implementation is that every view equals that of a fresh complex at the same rotation"""
    from common import run_impl
    hreqs = [d[1] for d in diffs if d[1][0] == "c03_history"][:20]
    out = []
    if hreqs:
        for rq, r in zip(hreqs, run_impl([("c03_fresh_compare", q[1]) for q in hreqs])):
            if isinstance(r, Err) or r:
                out.append({"key": {"seq": rq[1][0], "struct": "".join(rq[1][1]), "ops": rq[1][2]}, "input": {"history": rq[1]},
                            "what": str(r), "snippet": f"# harness op c03_fresh_compare {rq[1]!r} (harness/impl/views.py)"})
    return out


def after_witnesses(diffs, canon=None):
    """disagreements of `after` requests (an operation after earlier calls of the same operation in one process): when the
    first call in a fresh process gives another answer than the call after that history, the operation's answer depends on
    earlier, independent calls - a failing history of the property"""
    from common import run_impl
    out = []
    for d in [d for d in diffs if d[1][0] == "after"][:10]:
        name, earlier, args = d[1][1]
        fresh = run_impl([(name, args)], jobs=1)[0]
        again = run_impl([d[1]], jobs=1)[0]
        if canon:
            fresh, again = canon(name, fresh), canon(name, again)
        if fresh != again:
            out.append({"key": {"after": [name, earlier, args]}, "input": {"after": [name, earlier, args]},
                        "what": f"{name}{args!r} answers {again!r} after the earlier calls {earlier!r} in the same process, "
                                f"but {fresh!r} as a first call",
                        "snippet": f"# harness op after {[name, earlier, args]!r} (harness/implrunner.py)"})
    return out
