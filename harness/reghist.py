"""Histories over the singleton registries: alphabets, enumerators, random generators,
canonicalisation, correspondence, shrinking, rendering as a Python snippet.
Shared by the checks C01, C04, C05, C15."""
import itertools, json
from common import run_model, run_impl, run_oracle, Err, enc
from corr import correspond, shrink

# class-table indices of the zoo (harness/impl/registry.py, build_zoo)
D, C, S, M, R = 0, 1, 2, 3, 4
DA, DAA, DB, DFB, DFA = 5, 6, 7, 8, 9
CA, CAA, CB, CFB, CFA = 10, 11, 12, 13, 14
SA, SFA = 15, 16
MA, MAA, MFA = 17, 18, 19
RA, RFA, RFB = 20, 21, 22
DC, DD = 23, 24
NAMES = ["DomainS", "ComplexS", "StrandS", "MacrostateS", "ReactionS", "DomA", "DomAA", "DomB", "DomFailB",
         "DomFailA", "CplxA", "CplxAA", "CplxB", "CplxFailB", "CplxFailA", "StrandA", "StrandFailA",
         "MacA", "MacAA", "MacFailA", "RxnA", "RxnFailA", "RxnFailB", "DomC", "DomD"]
ALL = list(range(len(NAMES)))
KIND_OF = {c: k for k, cs in (("D", (D, DA, DAA, DB, DFB, DFA, DC, DD)), ("C", (C, CA, CAA, CB, CFB, CFA)), ("S", (S, SA, SFA)),
                              ("M", (M, MA, MAA, MFA)), ("R", (R, RA, RFA, RFB))) for c in cs}

# zoo variant 3 of impl/registry.py: the plain zoo, every read-only accessor of every held object read after every operation
from impl.registry import READS_VARIANT, READ_ATTRS   # noqa: E402  (constants only; the library is not imported)

_ct = None


def class_table():
    global _ct
    if _ct is None:
        _ct = run_impl([("registry_classes", None)])[0]
        if isinstance(_ct, Err) or len(_ct) != len(NAMES):
            raise RuntimeError(f"class table of the zoo not available: {_ct!r}")
    return _ct


def request(ops, nslots, watch, quiet=0, variant=0):
    """variant: which zoo the IMPLEMENTATION ran on (impl/registry.py build_variant: user classes that no naming attribute
    tells apart); the model request is the same for every variant"""
    return ("history" if not variant else f"history@zoo{variant}",
            [class_table(), nslots, [list(o) for o in ops], list(watch), quiet])


def diff_variant(d):
    op = d[1][0]
    return int(op.split("@zoo")[1]) if "@zoo" in op else 0


def _chunk(n, jobs):
    return max(1, min(BATCH, n // (2 * jobs) + 1))


def variants_for(n, jobs, variants):
    """zoo variant of each of n histories when run_both distributes `variants` over its request lines"""
    if not variants:
        return [0] * n
    b = _chunk(n, jobs)
    return [variants[(k // b) % len(variants)] for k in range(n)]


# ---------------------------------------------------------------------------
# op constructors
def dom(dst, cls=D, name=None, length=None, prefix=None, dtype=None):
    return ["dom", dst, cls, name, length, prefix, dtype]


def cplx(dst, cls, seq, sst, name=None, prefix=None):
    return ["cplx", dst, cls, None if seq is None else list(seq), None if sst is None else list(sst), name, prefix]


def strand(dst, cls, seq, name=None, prefix=None):
    return ["strand", dst, cls, None if seq is None else list(seq), name, prefix]


def macro(dst, cls, members, name=None):
    return ["macro", dst, cls, None if members is None else list(members), name]


def rxn(dst, cls, r, p, rtype, name=None):
    return ["rxn", dst, cls, None if r is None else [list(r), list(p)], rtype, name]


def inv(dst, src):
    return ["inv", dst, src]


def split(dst, src):
    return ["split", dst, src]


def drop(slot):
    return ["drop", slot]


def query(slot, q):
    return ["query", slot, q]


def turns(slot, v):
    return ["turns", slot, v]


# ---------------------------------------------------------------------------
# canonicalisation: registries are sets
def _key(x):
    return enc(x)


def canon_obs(op, res):
    if isinstance(res, Err) or op != "history":
        return res
    out = []
    for step in res:
        if isinstance(step, Err) or not isinstance(step, list) or len(step) != 5:
            out.append(step)
            continue
        outcome, slots, classes, objs, live = step
        cl = []
        for c in classes:
            if isinstance(c, list) and len(c) == 4:
                cl.append([sorted(c[0], key=_key), sorted(c[1], key=_key), c[2], c[3]])
            else:
                cl.append(c)
        out.append([outcome, slots, cl, objs, live])
    return out


def outcome_kinds(res):
    ks = []
    if isinstance(res, list):
        for step in res:
            if isinstance(step, list) and step and isinstance(step[0], list) and step[0]:
                o = step[0]
                ks.append(o[0] + (":" + str(o[1]) if o[0] == "raised" else ""))
    return ks


# ---------------------------------------------------------------------------
# correspondence of a batch of histories
BATCH = 48


def _run_split(which, lines, jobs):
    """like common.run_model/run_impl but always split over `jobs` processes (few, large requests);
    returns the raw result lines"""
    import concurrent.futures as cf, os
    import common
    if which == "model":
        cmd, env, cwd = ["bash", "-c", "ulimit -s unlimited 2>/dev/null; exec ./modelrun"], None, os.path.join(common.COQ, "extract")
    else:
        cmd, env, cwd = [common.PY, os.path.join(common.HARNESS, "implrunner.py")], common.env_for_impl(), common.HARNESS
    parts = common._chunks(lines, max(1, min(jobs, len(lines))))
    import time
    for attempt in range(4):
        with cf.ThreadPoolExecutor(len(parts)) as ex:
            rs = list(ex.map(lambda part: common.run_lines(cmd, part, env=env, cwd=cwd), parts))
        out = [l for r in rs for l in r[1]]
        if max(r[0] for r in rs) == 0 and len(out) == len(lines):
            return out
        # the model runner binary is replaced when a concurrent check re-extracts it: wait and retry
        if which != "model" or attempt == 3:
            break
        time.sleep(5)
        with common.BuildLock():
            pass
    raise RuntimeError(f"{which} runner failed: got {len(out)}/{len(lines)} lines: " + "".join(r[2] for r in rs)[-1500:])


_TOK = {"N": "null", "T": "true", "F": "false", "(": "[", ")": "]", "{": '{"E":[', "}": "]}"}


def raw_parse(line):
    """wire text -> nested lists through the C JSON parser; strings stay in code-point form
    ("97,42"), errors are {"E": [kind, args...]}"""
    toks = []
    for t in line.split():
        c = t[0]
        if c == "#":
            toks.append(t[1:])
        elif c == '"':
            toks.append('"' + t[1:] + '"')
        elif c == "~":
            toks.append('"~' + t[1:] + '"')
        else:
            toks.append(_TOK[t])
    return json.loads(",".join(toks).replace("[,", "[").replace(",]", "]"))


def _s(x):
    return "".join(chr(int(c)) for c in x.split(",")) if x else ""


def cook(v):
    """raw_parse form -> the usual decoded form (Python strs, Err objects)"""
    if isinstance(v, str):
        return v if v.startswith("~") else _s(v)
    if isinstance(v, list):
        return [cook(x) for x in v]
    if isinstance(v, dict):
        k = v["E"]
        return Err(_s(k[0]), [cook(x) for x in k[1:]])
    return v


def fast_parse(line):
    return cook(raw_parse(line))


def run_both(hists, nslots, watch, jobs=8, quiet=0, variants=None):
    """-> list of (model result, implementation result, raw implementation result) per history.
    Result lines that are textually identical are accepted as agreeing (the slow canonical
    comparison is needed only when the texts differ): for those the first two entries are None.
    variants: zoo variants (see request) the implementation runs on, distributed over the request lines
    (variants_for says which history got which); the model is asked the plain request."""
    ct = class_table()
    batch = _chunk(len(hists), jobs)
    reqs = [("histories", [ct, nslots, [[list(o) for o in h] for h in hists[k:k + batch]], list(watch), quiet])
            for k in range(0, len(hists), batch)]
    lines = [enc(op) + " " + enc(arg) for op, arg in reqs]
    ilines = lines
    if variants:
        ilines = [enc("histories_v" if variants[j % len(variants)] else op) + " " +
                  enc(arg + [variants[j % len(variants)]] if variants[j % len(variants)] else arg)
                  for j, (op, arg) in enumerate(reqs)]
    ml, il = _run_split("model", lines, jobs), _run_split("impl", ilines, jobs)
    out = []
    decoded_bad = 0
    for rq, a, b in zip(reqs, ml, il):
        n = len(rq[1][2])
        if a != b and decoded_bad > 80:
            # plenty of disagreements are decoded already: the remaining differing batches are counted, not decoded
            out += [(Err("DisagreementNotDecoded"), Err("DisagreementNotDecoded:impl"), None)] * n
            continue
        rb = raw_parse(b)
        ok = isinstance(rb, list) and len(rb) == n and all(isinstance(x, list) for x in rb)
        if a == b and ok:
            out += [(None, None, x) for x in rb]
            continue

        def flat(r):
            r = cook(r)
            if isinstance(r, Err) or not isinstance(r, list) or len(r) != n:
                return [r if isinstance(r, Err) else Err("BadBatch")] * n
            return [canon_obs("history", x) for x in r]
        fa, fb = flat(raw_parse(a)), flat(rb)
        decoded_bad += sum(1 for x, y in zip(fa, fb) if x != y)
        out += [(x, y, (z if ok else None)) for x, y, z in zip(fa, fb, rb if ok else [None] * n)]
    return out


def correspond_histories(ctx, label, hists, nslots, watch, jobs=8, quiet=0, variants=None):
    """hists: list of op lists.  Returns disagreements as (index, request, model, impl) where
    request = ("history", [class table, nslots, ops, watch]); fills the coverage statistics."""
    import collections, hashlib
    if not hists:
        return []
    res = run_both(hists, nslots, watch, jobs=jobs, quiet=quiet, variants=variants)
    vs = variants_for(len(hists), jobs, variants)
    diffs, kinds, sizes, distinct = [], collections.Counter(), collections.Counter(), set()
    steps = 0
    faults = {",".join(str(ord(c)) for c in k) for k in MODEL_FAULTS}
    raised = ",".join(str(ord(c)) for c in "raised")
    for k, (h, (a, b, raw)) in enumerate(zip(hists, res)):
        sizes[len(h)] += 1
        bad = (a is not None or b is not None) and (isinstance(a, Err) or a != b)
        if not bad and raw is None:
            bad = True
        if not bad:
            for step in raw:
                o = step[0]
                if o[0] == raised and o[1] in faults:
                    bad = True
        if bad:
            if a is None:
                a = b = canon_obs("history", cook(raw))
            diffs.append((k, request(h, nslots, watch, quiet, vs[k]), a, b))
            continue
        steps += len(raw)
        for step in raw:
            o = step[0]
            kinds[o[0] + (":" + o[1] if o[0] == raised else "")] += 1
        if a is None:
            distinct.add(hashlib.md5(json.dumps(raw[-1][1:]).encode()).digest() if raw else b"")
        else:
            distinct.add(hashlib.md5(json.dumps(b[-1][1:], default=repr).encode()).digest() if b else b"")
    st = ctx.cov["correspondence"].setdefault(label, {"cases": 0, "steps": 0, "disagreements": 0, "outcomes": {},
                                                      "history_length_histogram": {}, "distinct_results": 0})
    st["cases"] += len(hists)
    st["steps"] += steps
    st["disagreements"] += len(diffs)
    for k, v in kinds.items():
        kk = ":".join(_s(p) for p in k.split(":"))
        st["outcomes"][kk] = st["outcomes"].get(kk, 0) + v
    for k, v in sizes.items():
        st["history_length_histogram"][str(k)] = st["history_length_histogram"].get(str(k), 0) + v
    st["distinct_results"] += len(distinct)
    if variants:
        hv = st.setdefault("histories_per_zoo_variant", {})
        for v in vs:
            hv[str(v)] = hv.get(str(v), 0) + 1
    a, b, raw = res[0]
    last = (lambda x: repr(x[-1] if isinstance(x, list) and x else x)[:600])
    show = cook(raw) if raw is not None else None
    ctx.add_eval(len(hists), len(distinct),
                 samples=[{"history": hists[0], "slots": nslots, "observed_classes": [NAMES[c] for c in watch],
                           "model_last_step": last(a if a is not None else show),
                           "impl_last_step": last(b if b is not None else show)}])
    return diffs


MODEL_FAULTS = {"BadRequest", "OutOfFuel", "Unmodelled", "Stack", "BadLine"}


def first_divergence(m, i):
    m, i = canon_obs("history", m), canon_obs("history", i)
    if isinstance(m, Err) or isinstance(i, Err) or not isinstance(m, list) or not isinstance(i, list):
        return 0
    for k, (a, b) in enumerate(zip(m, i)):
        if a != b:
            return k
    return min(len(m), len(i))


def disagree_hist(ops, nslots, watch, quiet=0, variant=0):
    r = run_both([list(ops)], nslots, watch, jobs=1, quiet=min(quiet, max(0, len(ops) - 1)),
                 variants=[variant] if variant else None)[0]
    return r[0] is not None and (r[0] != r[1] or isinstance(r[0], Err))


def shrink_history(ops, nslots, watch, budget=120, variant=0):
    """delete ops while model and implementation still disagree (everything observed)"""
    def cands(h):
        for k in range(len(h) - 1, -1, -1):
            yield h[:k] + h[k + 1:]
    return shrink(list(ops), lambda h: bool(h) and disagree_hist(h, nslots, watch, variant=variant), cands, budget=budget)


def diff_prefix(d):
    """the disagreeing history cut after the first step on which model and implementation differ"""
    _, nslots, ops, watch, quiet = d[1][1]
    k = first_divergence(d[2], d[3])
    return ops[:quiet + k + 1], nslots, watch


def shrink_diffs(diffs, limit=3):
    """-> list of shrunk histories [(ops, nslots, watch, zoo variant)] for the first few disagreements"""
    out = []
    for d in diffs[:limit]:
        ops, nslots, watch = diff_prefix(d)
        v = diff_variant(d)
        out.append((shrink_history(ops, nslots, watch, variant=v), nslots, watch, v))
    return out


# ---------------------------------------------------------------------------
# rendering a history as Python against the public API
def snippet(ops, nslots, variant=0):
    used = {o[2] for o in ops if o[0] in ("dom", "cplx", "strand", "macro", "rxn")}
    lines = ["import gc; gc.disable()   # release must not depend on the cyclic collector",
             "from dsdobjects.base_classes import DomainS, ComplexS, StrandS, MacrostateS, ReactionS",
             "from dsdobjects import SingletonError"]
    if any(c >= 5 for c in used):
        lines += ["# user subclasses as in /verif/harness/impl/registry.py (build_zoo): " +
                  ", ".join(f"ZOO[{c}] = {NAMES[c]}" for c in sorted(used) if c >= 5),
                  "import sys; sys.path.insert(0, '/verif/harness')",
                  "from impl.registry import build_zoo, ZOO; build_zoo()"]
        if variant and variant != READS_VARIANT:
            lines += ["# the same zoo built from classes that no naming attribute tells apart (variant 1: every user class of "
                      "one kind has the same __name__/__qualname__/__module__, as from a class factory or type() called twice; "
                      "variant 2: those of the library class of its kind)",
                      f"from impl.registry import zoo_variant; zoo_variant({variant}).__enter__()"]
    lines.append(f"s = [None] * {nslots}")
    reads = variant == READS_VARIANT
    if reads:
        variant = 0
        lines += ["# after every operation every read-only accessor of every held object is read and thrown away",
                  f"READ_ATTRS = {READ_ATTRS!r}",
                  "def reads():\n    for k in range(len(s)):\n        for a in READ_ATTRS:\n            try: getattr(s[k], a)\n"
                  "            except Exception: pass\n        for f in (repr, str, hash, lambda x: x == x):\n"
                  "            try: f(s[k])\n            except Exception: pass"]

    def clsname(c):
        return NAMES[c] if c < 5 else f"ZOO[{c}]"

    def tryit(stmt):
        return f"try: {stmt}\nexcept Exception as e: print(type(e).__name__, getattr(e, 'existing', None))"
    # the container handed over for members / reactants / products follows the position of the construction in the
    # history exactly as in impl/registry.py (Machine.construct): tuple, list, deque in turn
    ncalls = 0

    def box(elems):
        inner = ", ".join(f"s[{e}]" for e in elems)
        if ncalls % 3 == 0:
            return "(" + inner + ("," if len(elems) == 1 else "") + ")"
        return "[" + inner + "]" if ncalls % 3 == 1 else "deque([" + inner + "])"
    if any(o[0] in ("macro", "rxn") for o in ops):
        lines.insert(3, "from collections import deque")
    for o in ops:
        t = o[0]
        cls = clsname(o[2]) if t in ("dom", "cplx", "strand", "macro", "rxn") else ""
        if cls and KIND_OF.get(o[2]) == {"dom": "D", "cplx": "C", "strand": "S", "macro": "M", "rxn": "R"}[t]:
            ncalls += 1
        if t == "dom":
            kw = ", ".join(f"{k}={v!r}" for k, v in zip(("name", "length", "prefix", "dtype"), o[3:]) if v is not None)
            lines.append(tryit(f"s[{o[1]}] = {cls}({kw})"))
        elif t in ("cplx", "strand"):
            seq = o[3]
            sq = "None" if seq is None else "[" + ", ".join(f"s[{e}]" if isinstance(e, int) else repr(e) for e in seq) + "]"
            if t == "cplx":
                kw = "".join(f", {k}={v!r}" for k, v in zip(("name", "prefix"), o[5:]) if v is not None)
                lines.append(tryit(f"s[{o[1]}] = {cls}({sq}, {o[4]!r}{kw})"))
            else:
                kw = "".join(f", {k}={v!r}" for k, v in zip(("name", "prefix"), o[4:]) if v is not None)
                lines.append(tryit(f"s[{o[1]}] = {cls}({sq}{kw})"))
        elif t == "macro":
            ms = "" if o[3] is None else box(o[3])
            kw = "" if o[4] is None else (", " if ms else "") + f"name={o[4]!r}"
            lines.append(tryit(f"s[{o[1]}] = {cls}({ms}{kw})"))
        elif t == "rxn":
            if o[3] is None:
                a = "None, None"
            else:
                a = ", ".join(box(l) for l in o[3])
            kw = "" if o[5] is None else f", name={o[5]!r}"
            lines.append(tryit(f"s[{o[1]}] = {cls}({a}, {o[4]!r}{kw})"))
        elif t == "inv":
            lines.append(tryit(f"s[{o[1]}] = ~s[{o[2]}]"))
        elif t == "split":
            lines.append(tryit(f"parts = list(s[{o[2]}].split()); s[{o[1]}:{o[1]}+len(parts)] = parts[:max(0, {nslots}-{o[1]})]; del parts"))
        elif t == "drop":
            lines.append(f"s[{o[1]}] = None")
        elif t == "query":
            q = {"name": "s[{}].name", "len": "len(s[{}])", "dtype": "s[{}].dtype", "size": "s[{}].size"}[o[2]]
            lines.append(tryit("print(" + q.format(o[1]) + ")"))
        elif t == "turns":
            lines.append(tryit(f"s[{o[1]}].turns = {o[2]}"))
        if reads:
            lines.append("reads()")
    lines.append("for c in (DomainS, ComplexS, StrandS, MacrostateS, ReactionS): print(c.__name__, dict(c._instanceNames))")
    if variant:
        lines.append("for k, c in enumerate(ZOO):\n    if len(c._instanceNames): print(f'ZOO[{k}]', c.__name__, "
                     "{n: f'a {type(o).__name__} that is ' + ('' if type(o) is c else 'NOT ') + f'an instance of exactly ZOO[{k}]' "
                     "for n, o in c._instanceNames.items()})")
    return "\n".join(lines)


# ---------------------------------------------------------------------------
# small alphabets
def dom_alphabet(cls=D, names=("a", "a*", None), lengths=(None, 5, 9), dtypes=(None, "short"), slots=(0, 1),
                 invs=((0, 1), (1, 0), (0, 0), (0, 2))):
    ops = []
    for slot in slots:
        for name in names:
            for length in lengths:
                for dtype in dtypes:
                    ops.append(dom(slot, cls, name, length, None, dtype))
        ops.append(drop(slot))
    for s, d in invs:
        ops.append(inv(d, s))
    return ops


def all_histories(alphabet, depth):
    return [list(h) for h in itertools.product(alphabet, repeat=depth)]


def rotations(seq, sst):
    """all rotations of a complex given as lists (independent of the library)"""
    out = []
    strands_s, strands_t = [[]], [[]]
    for x, y in zip(seq, sst):
        if y == "+":
            strands_s.append([]); strands_t.append([])
        else:
            strands_s[-1].append(x); strands_t[-1].append(y)
    n = len(strands_s)
    # pairing by flat index
    flat = [(si, di) for si in range(n) for di in range(len(strands_s[si]))]
    stack, partner = [], {}
    for loc in flat:
        c = strands_t[loc[0]][loc[1]]
        if c == "(":
            stack.append(loc)
        elif c == ")":
            q = stack.pop(); partner[loc] = q; partner[q] = loc
    for r in range(n):
        order = [(r + k) % n for k in range(n)]
        pos = {}
        k = 0
        for si in order:
            for di in range(len(strands_s[si])):
                pos[(si, di)] = k; k += 1
            k += 1
        s2, t2 = [], []
        for j, si in enumerate(order):
            if j:
                s2.append("+"); t2.append("+")
            for di in range(len(strands_s[si])):
                s2.append(strands_s[si][di])
                loc = (si, di)
                if loc in partner:
                    t2.append("(" if pos[loc] < pos[partner[loc]] else ")")
                else:
                    t2.append(".")
        out.append((s2, t2))
    return out


# ---------------------------------------------------------------------------
# long random histories over all classes; slots are partitioned by kind so that the
# generator always knows what a slot can hold
LAYOUT = {"D": [0, 1, 2, 3], "C": [4, 5, 6], "S": [7, 8], "M": [9, 10], "R": [11, 12]}
# the results of split() go to slots 13.. (complexes only; at most 4 components with the templates below):
# `s[dst:dst+n] = parts` must never spill into the slots of another kind, otherwise a later macrostate /
# reaction request mixes kinds, which is outside the model
SPLIT_DST = 13
LAYOUT["C"] = LAYOUT["C"] + [13, 14, 15, 16]
NSLOTS = 17
TEMPLATES = [([0, "+", 0], ".+."), ([0, "+", 0, "+", 0], "(+)+."), ([0, 1, "+", 1, "+", 0], "((+)+)"),
             ([0, "+", 1], ".+."), ([0], "."), ([0, 1, "+", 2, 3], "((+))"), ([0, "+", 1, "+", 0, "+", 1], "(+(+)+)"),
             (["x", 1, "+", "x", 1], "..+.."), ([2, "+", 3, "+", 2, "+", 3], ".+.+.+.")]
TEMPLATES += [([0, 1, "+", 1, 0, 2], "()+..."), ([0, "+", 1, "+", 2, "+", 1], "(+.+)+."), ([0, 0, "+", 1, "+", 1, 0], "..+.+..")]
BAD_TEMPLATES = [([0, "+", 1], ")+("), ([0, 1], "."), ([0, "+", 1], "(+."), (["+"], "+"), ([], ""), ([0, "+", "+", 1], "(++)")]


def random_history(rng, length, classes=None, p_sub=0.3, weird=0.05):
    """classes: dict kind -> list of class indices to draw from (first = base class)"""
    cl = {"D": [D, DA, DAA, DB, DFB, DFA, DC, DD], "C": [C, CA, CAA, CB, CFB, CFA], "S": [S, SA, SFA],
          "M": [M, MA, MAA, MFA], "R": [R, RA, RFA, RFB]}
    if classes:
        cl.update(classes)

    def pick(kind):
        return cl[kind][0] if rng.random() > p_sub or len(cl[kind]) == 1 else rng.choice(cl[kind][1:])
    dn = ["a", "a*", "b", "b*", None, "d1", "d2", "q7", "d1*"]
    cn = [None, None, "c1", "c2", "X", "k3", "s1"]
    ops = []
    filled = set()

    def ref(pool):
        """a slot of the pool that probably holds an object"""
        f = [s for s in pool if s in filled]
        return rng.choice(f) if f and rng.random() < 0.93 else rng.choice(pool)
    for _ in range(length):
        if ops and ops[-1][0] in ("dom", "cplx", "strand", "macro", "rxn", "inv"):
            filled.add(ops[-1][1])
        elif ops and ops[-1][0] == "drop":
            filled.discard(ops[-1][1])
        r = rng.random()
        if r < 0.28:
            name = rng.choice(dn)
            length_ = rng.choice([None, None, 3, 5, 5, 9, 15, 8, 4, 8, 4] + ([0, -1] if rng.random() < weird else []))   # 8 and 4 are the DTYPE_CUTOFF values of the zoo
            dtype = rng.choice([None, None, None, "short", "long"] + (["odd", ""] if rng.random() < weird else []))
            prefix = rng.choice([None] * 6 + ["p", ""])
            if rng.random() < weird:
                name = rng.choice(["", "*", "**"])
            ops.append(dom(rng.choice(LAYOUT["D"]), pick("D"), name, length_, prefix if name is None else None, dtype))
        elif r < 0.33:
            ops.append(inv(rng.choice(LAYOUT["D"]), ref(LAYOUT["D"])))
        elif r < 0.50:
            c = pick("C")
            if rng.random() < 0.12:
                ops.append(cplx(rng.choice(LAYOUT["C"]), c, None, None, rng.choice(cn)))
                continue
            seq, sst = rng.choice(TEMPLATES if rng.random() > weird * 2 else BAD_TEMPLATES)
            seq, sst = list(seq), list(sst)
            if sst and "+" in sst and rng.random() < 0.7 and (seq, sst) not in [(list(a), list(b)) for a, b in BAD_TEMPLATES]:
                rots = rotations(seq, sst)
                seq, sst = rng.choice(rots)
            perm = [ref(LAYOUT["D"]) for _ in range(4)]
            seq = [perm[e] if isinstance(e, int) else e for e in seq]
            name = rng.choice(cn)
            ops.append(cplx(rng.choice(LAYOUT["C"]), c, seq, sst, name, rng.choice([None] * 5 + ["z", ""]) if name is None else None))
        elif r < 0.58:
            c = pick("S")
            if rng.random() < 0.12:
                ops.append(strand(rng.choice(LAYOUT["S"]), c, None, rng.choice(cn)))
                continue
            seq = [ref(LAYOUT["D"]) if rng.random() < 0.85 else "x" for _ in range(rng.randrange(0, 4))]
            if rng.random() < weird:
                seq.append("+")
            ops.append(strand(rng.choice(LAYOUT["S"]), c, seq, rng.choice(cn)))
        elif r < 0.68:
            c = pick("M")
            if rng.random() < 0.12:
                ops.append(macro(rng.choice(LAYOUT["M"]), c, None, rng.choice(cn)))
                continue
            ms = [ref(LAYOUT["C"] + LAYOUT["S"][:1]) for _ in range(rng.randrange(0 if rng.random() < weird else 1, 4))]
            ops.append(macro(rng.choice(LAYOUT["M"]), c, ms, rng.choice([None, None, None, "c1", "X", "c2"])))
        elif r < 0.78:
            c = pick("R")
            if rng.random() < 0.12:
                ops.append(rxn(rng.choice(LAYOUT["R"]), c, None, None, rng.choice([None, "bind21"]) if rng.random() < 0.2 else None,
                               rng.choice([None, "r1", "[open] c1 -> c2"])))
                continue
            pool = LAYOUT["M"] if rng.random() < 0.35 else LAYOUT["C"] + LAYOUT["S"][:1]
            rs = [ref(pool) for _ in range(rng.randrange(0, 3))]
            ps = [ref(pool) for _ in range(rng.randrange(0, 3))]
            ops.append(rxn(rng.choice(LAYOUT["R"]), c, rs, ps, rng.choice(["bind21", "open", "condensed", None, "weird"]),
                           rng.choice([None, None, None, "r1", "r2"])))
        elif r < 0.80:
            ops.append(split(SPLIT_DST, ref(LAYOUT["C"])))
        elif r < 0.89:
            ops.append(drop(ref(list(range(NSLOTS)))))
        elif r < 0.95:
            ops.append(query(ref(list(range(NSLOTS))), rng.choice(["name", "len", "dtype", "size"])))
        else:
            ops.append(turns(ref(LAYOUT["C"] + LAYOUT["S"]), rng.choice([-3, -1, 0, 1, 2, 5])))
    return ops


# ---------------------------------------------------------------------------
# the check driver shared by C01, C04, C05, C15
def _what_class(what):
    import re
    w = re.sub(r"[A-Za-z]+\((?:[^()]|\([^()]*\))*\)", "<obj>", what)
    return re.sub(r"-?\d+", "N", w)[:120]


def oracle_search(pid, histories, deep=False, limit=10):
    """histories: list of (ops, nslots) or (ops, nslots, zoo variant).  -> list of failing inputs (dicts for flow.conclude)"""
    if not histories:
        return []
    hs = []
    for o, n, *v in histories:
        hs.append({"ops": o, "nslots": n})
        if v and v[0]:
            hs[-1]["zoo"] = v[0]
    out = run_oracle(pid.lower() + ".py", {"histories": hs, "deep": deep})
    found, seen = [], set()
    for f in out["failures"]:
        key = {"check": f["check"], "what": _what_class(f["what"]),
               "zero_length": any(o[0] == "dom" and o[4] == 0 for o in f["ops"]),
               "double_star": any(o[0] == "dom" and isinstance(o[3], str) and o[3].endswith("**") for o in f["ops"])}
        k = json.dumps(key, sort_keys=True)
        if k in seen:
            continue
        seen.add(k)
        found.append({"key": key, "input": {"ops": f["ops"], "nslots": f["nslots"]}, "what": f["what"],
                      "snippet": snippet(f["ops"], f["nslots"], f.get("zoo", 0))})
        if f.get("zoo"):
            found[-1]["input"]["zoo"] = f["zoo"]
            found[-1]["key"]["zoo"] = f["zoo"]
        if len(found) >= limit:
            break
    return found


def run_check(ctx, pid, batches, rule, partial=(), refuted=()):
    """batches(ctx) -> list of (label, histories, nslots, watch[, quiet[, zoo variants]])."""
    from common import prove, ensure_model_runner
    from flow import conclude
    res = prove(ctx)
    runner = ensure_model_runner()
    diffs, all_batches = [], []
    if runner.ok:
        all_batches = batches(ctx)
        for label, hists, nslots, watch, *q in all_batches:
            if len(diffs) > 40:
                # the correspondence is broken already: go and look for a failing input instead of
                # decoding thousands of further disagreements
                ctx.cov.setdefault("batches_skipped_after_disagreements", []).append(label)
                continue
            diffs += correspond_histories(ctx, label, hists, nslots, watch, jobs=16, quiet=q[0] if q else 0,
                                          variants=q[1] if len(q) > 1 else None)
    ctx.cov["rule"] = rule
    ctx.cov["partial"] = list(partial)
    if refuted:
        ctx.cov["refuted_in_model"] = list(refuted)
    ctx.cov["exhaustive"] = False

    def search(diffs):
        cands = []
        # (a) the shrunk disagreements and the disagreeing prefixes themselves
        for ops, nslots, watch, v in shrink_diffs(diffs, limit=3):
            cands.append((ops, nslots, v))
        for d in diffs[:40]:
            ops, nslots, _ = diff_prefix(d)
            cands.append((ops, nslots, diff_variant(d)))
        found = oracle_search(pid, cands, deep=True)
        if found:
            return found
        # (c) the enumerators against the oracle (bounded)
        budget = 4000 if ctx.tier == "quick" else 40000
        for label, hists, nslots, watch, *q in all_batches:
            step = max(1, len(hists) // budget)
            vs = variants_for(len(hists), 16, q[1] if len(q) > 1 else None)
            found += oracle_search(pid, [(h, nslots, v) for h, v in zip(hists[::step], vs[::step])][:budget], deep=False)
            if found:
                break
        return found

    conclude(ctx, res, runner, diffs, search)


def replay(pid, data):
    inp = data.get("input")
    if not inp:
        print("replay file names a broken proof/correspondence link only:", json.dumps(data.get("broken_links"))[:2000])
        return 1
    out = run_oracle(pid.lower() + ".py", {"histories": [inp], "deep": True})
    print(json.dumps(out))
    return 1 if out["failures"] else 0
