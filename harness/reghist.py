"""Histories over the singleton registries: alphabets, enumerators, random generators,
canonicalisation, correspondence, shrinking, rendering as a Python snippet.
Shared by the checks C01, C04, C05, C15."""
import itertools, json
from common import run_model, run_impl, run_oracle, Err, enc
from corr import correspond, shrink

# class-table indices of the zoo (harness/impl/registry.py, build_zoo)
D, C, S, M, R = 0, 1, 2, 3, 4
DA, DAA, DB, DFB, DFA = 5, 6, 7, 8, 9
CA, CAA, CB, CFB, CFA = 10, 11, 12, 13, 14
SA, SFA = 15, 16
MA, MAA, MFA = 17, 18, 19
RA, RFA, RFB = 20, 21, 22
NAMES = ["DomainS", "ComplexS", "StrandS", "MacrostateS", "ReactionS", "DomA", "DomAA", "DomB", "DomFailB",
         "DomFailA", "CplxA", "CplxAA", "CplxB", "CplxFailB", "CplxFailA", "StrandA", "StrandFailA",
         "MacA", "MacAA", "MacFailA", "RxnA", "RxnFailA", "RxnFailB"]
ALL = list(range(len(NAMES)))

_ct = None


def class_table():
    global _ct
    if _ct is None:
        _ct = run_impl([("registry_classes", None)])[0]
        if isinstance(_ct, Err) or len(_ct) != len(NAMES):
            raise RuntimeError(f"class table of the zoo not available: {_ct!r}")
    return _ct


def request(ops, nslots, watch):
    return ("history", [class_table(), nslots, [list(o) for o in ops], list(watch)])


# ---------------------------------------------------------------------------
# op constructors
def dom(dst, cls=D, name=None, length=None, prefix=None, dtype=None):
    return ["dom", dst, cls, name, length, prefix, dtype]


def cplx(dst, cls, seq, sst, name=None, prefix=None):
    return ["cplx", dst, cls, None if seq is None else list(seq), None if sst is None else list(sst), name, prefix]


def strand(dst, cls, seq, name=None, prefix=None):
    return ["strand", dst, cls, None if seq is None else list(seq), name, prefix]


def macro(dst, cls, members, name=None):
    return ["macro", dst, cls, None if members is None else list(members), name]


def rxn(dst, cls, r, p, rtype, name=None):
    return ["rxn", dst, cls, None if r is None else [list(r), list(p)], rtype, name]


def inv(dst, src):
    return ["inv", dst, src]


def drop(slot):
    return ["drop", slot]


def query(slot, q):
    return ["query", slot, q]


def turns(slot, v):
    return ["turns", slot, v]


# ---------------------------------------------------------------------------
# canonicalisation: registries are sets
def _key(x):
    return enc(x)


def canon_obs(op, res):
    if isinstance(res, Err) or op != "history":
        return res
    out = []
    for step in res:
        if isinstance(step, Err) or not isinstance(step, list) or len(step) != 5:
            out.append(step)
            continue
        outcome, slots, classes, objs, live = step
        cl = []
        for c in classes:
            if isinstance(c, list) and len(c) == 4:
                cl.append([sorted(c[0], key=_key), sorted(c[1], key=_key), c[2], c[3]])
            else:
                cl.append(c)
        out.append([outcome, slots, cl, objs, live])
    return out


def outcome_kinds(res):
    ks = []
    if isinstance(res, list):
        for step in res:
            if isinstance(step, list) and step and isinstance(step[0], list) and step[0]:
                o = step[0]
                ks.append(o[0] + (":" + str(o[1]) if o[0] == "raised" else ""))
    return ks


# ---------------------------------------------------------------------------
# correspondence of a batch of histories
BATCH = 48


def run_both(hists, nslots, watch, jobs=8):
    """-> (model results, implementation results), one entry per history, canonicalised"""
    ct = class_table()
    reqs = [("histories", [ct, nslots, [[list(o) for o in h] for h in hists[k:k + BATCH]], list(watch)])
            for k in range(0, len(hists), BATCH)]
    out = []
    for res in (run_model(reqs, jobs=jobs), run_impl(reqs, jobs=jobs)):
        flat = []
        for rq, r in zip(reqs, res):
            n = len(rq[1][2])
            if isinstance(r, Err) or not isinstance(r, list) or len(r) != n:
                flat += [r if isinstance(r, Err) else Err("BadBatch")] * n
            else:
                flat += [canon_obs("history", x) for x in r]
        out.append(flat)
    return out[0], out[1]


def correspond_histories(ctx, label, hists, nslots, watch, jobs=8):
    """hists: list of op lists.  Returns disagreements as (index, request, model, impl) where
    request = ("history", [class table, nslots, ops, watch]); fills the coverage statistics."""
    import collections
    if not hists:
        return []
    m, i = run_both(hists, nslots, watch, jobs=jobs)
    diffs, kinds, sizes, distinct = [], collections.Counter(), collections.Counter(), set()
    steps = 0
    for k, (h, a, b) in enumerate(zip(hists, m, i)):
        sizes[len(h)] += 1
        bad = isinstance(a, Err) or a != b
        if not bad:
            for step in a:
                o = step[0]
                if o[0] == "raised" and o[1] in MODEL_FAULTS:
                    bad = True
        if bad:
            diffs.append((k, request(h, nslots, watch), a, b))
            continue
        steps += len(a)
        for ok in outcome_kinds(b):
            kinds[ok] += 1
        distinct.add(enc(b[-1][1:]) if b else "")       # distinct final observable states
    st = ctx.cov["correspondence"].setdefault(label, {"cases": 0, "steps": 0, "disagreements": 0, "outcomes": {},
                                                      "history_length_histogram": {}, "distinct_results": 0})
    st["cases"] += len(hists)
    st["steps"] += steps
    st["disagreements"] += len(diffs)
    for k, v in kinds.items():
        st["outcomes"][k] = st["outcomes"].get(k, 0) + v
    for k, v in sizes.items():
        st["history_length_histogram"][str(k)] = st["history_length_histogram"].get(str(k), 0) + v
    st["distinct_results"] += len(distinct)
    ctx.add_eval(len(hists), len(distinct),
                 samples=[{"history": hists[0], "slots": nslots, "observed_classes": [NAMES[c] for c in watch],
                           "model_last_step": repr(m[0][-1] if isinstance(m[0], list) and m[0] else m[0])[:600],
                           "impl_last_step": repr(i[0][-1] if isinstance(i[0], list) and i[0] else i[0])[:600]}])
    return diffs


MODEL_FAULTS = {"BadRequest", "OutOfFuel", "Unmodelled", "Stack", "BadLine"}


def first_divergence(m, i):
    m, i = canon_obs("history", m), canon_obs("history", i)
    if isinstance(m, Err) or isinstance(i, Err) or not isinstance(m, list) or not isinstance(i, list):
        return 0
    for k, (a, b) in enumerate(zip(m, i)):
        if a != b:
            return k
    return min(len(m), len(i))


def disagree_hist(ops, nslots, watch):
    rq = request(ops, nslots, watch)
    a = canon_obs("history", run_model([rq], jobs=1)[0])
    b = canon_obs("history", run_impl([rq], jobs=1)[0])
    return a != b or isinstance(a, Err)


def shrink_history(ops, nslots, watch, budget=120):
    """delete ops while model and implementation still disagree"""
    def cands(h):
        for k in range(len(h) - 1, -1, -1):
            yield h[:k] + h[k + 1:]
    return shrink(list(ops), lambda h: bool(h) and disagree_hist(h, nslots, watch), cands, budget=budget)


def shrink_diffs(diffs, limit=3):
    """-> list of shrunk histories [(ops, nslots, watch)] for the first few disagreements"""
    out = []
    for d in diffs[:limit]:
        _, ops_ct = d[1]
        _, nslots, ops, watch = ops_ct
        k = first_divergence(d[2], d[3])
        ops = ops[:k + 1]
        out.append((shrink_history(ops, nslots, watch), nslots, watch))
    return out


# ---------------------------------------------------------------------------
# rendering a history as Python against the public API
def snippet(ops, nslots):
    lines = ["import gc; gc.disable()",
             "from dsdobjects.base_classes import DomainS, ComplexS, StrandS, MacrostateS, ReactionS",
             "from dsdobjects import SingletonError",
             "# subclasses as in /verif/harness/impl/registry.py (build_zoo); base classes have indices 0-4",
             "from impl.registry import build_zoo, ZOO; build_zoo()",
             f"s = [None] * {nslots}"]

    def tryit(stmt):
        return f"try: {stmt}\nexcept Exception as e: print(type(e).__name__, getattr(e, 'existing', None))"
    for o in ops:
        t = o[0]
        cls = f"ZOO[{o[2]}]" if t in ("dom", "cplx", "strand", "macro", "rxn") else ""
        if t == "dom":
            kw = ", ".join(f"{k}={v!r}" for k, v in zip(("name", "length", "prefix", "dtype"), o[3:]) if v is not None)
            lines.append(tryit(f"s[{o[1]}] = {cls}({kw})"))
        elif t in ("cplx", "strand"):
            seq = o[3]
            sq = "None" if seq is None else "[" + ", ".join(f"s[{e}]" if isinstance(e, int) else repr(e) for e in seq) + "]"
            if t == "cplx":
                kw = "".join(f", {k}={v!r}" for k, v in zip(("name", "prefix"), o[5:]) if v is not None)
                lines.append(tryit(f"s[{o[1]}] = {cls}({sq}, {o[4]!r}{kw})"))
            else:
                kw = "".join(f", {k}={v!r}" for k, v in zip(("name", "prefix"), o[4:]) if v is not None)
                lines.append(tryit(f"s[{o[1]}] = {cls}({sq}{kw})"))
        elif t == "macro":
            ms = "" if o[3] is None else "[" + ", ".join(f"s[{e}]" for e in o[3]) + "]"
            kw = "" if o[4] is None else (", " if ms else "") + f"name={o[4]!r}"
            lines.append(tryit(f"s[{o[1]}] = {cls}({ms}{kw})"))
        elif t == "rxn":
            if o[3] is None:
                a = "None, None"
            else:
                a = ", ".join("[" + ", ".join(f"s[{e}]" for e in l) + "]" for l in o[3])
            kw = "" if o[5] is None else f", name={o[5]!r}"
            lines.append(tryit(f"s[{o[1]}] = {cls}({a}, {o[4]!r}{kw})"))
        elif t == "inv":
            lines.append(tryit(f"s[{o[1]}] = ~s[{o[2]}]"))
        elif t == "drop":
            lines.append(f"s[{o[1]}] = None")
        elif t == "query":
            q = {"name": "s[{}].name", "len": "len(s[{}])", "dtype": "s[{}].dtype", "size": "s[{}].size"}[o[2]]
            lines.append(tryit("print(" + q.format(o[1]) + ")"))
        elif t == "turns":
            lines.append(tryit(f"s[{o[1]}].turns = {o[2]}"))
    lines.append("for c in ZOO: print(c.__name__, dict(c._instanceNames))")
    return "\n".join(lines)


# ---------------------------------------------------------------------------
# small alphabets
def dom_alphabet(cls=D, names=("a", "a*", None), lengths=(None, 5, 9), dtypes=(None, "short"), slots=(0, 1),
                 invs=((0, 1), (1, 0), (0, 0), (0, 2))):
    ops = []
    for slot in slots:
        for name in names:
            for length in lengths:
                for dtype in dtypes:
                    ops.append(dom(slot, cls, name, length, None, dtype))
        ops.append(drop(slot))
    for s, d in invs:
        ops.append(inv(d, s))
    return ops


def all_histories(alphabet, depth):
    return [list(h) for h in itertools.product(alphabet, repeat=depth)]


def rotations(seq, sst):
    """all rotations of a complex given as lists (independent of the library)"""
    out = []
    strands_s, strands_t = [[]], [[]]
    for x, y in zip(seq, sst):
        if y == "+":
            strands_s.append([]); strands_t.append([])
        else:
            strands_s[-1].append(x); strands_t[-1].append(y)
    n = len(strands_s)
    # pairing by flat index
    flat = [(si, di) for si in range(n) for di in range(len(strands_s[si]))]
    stack, partner = [], {}
    for loc in flat:
        c = strands_t[loc[0]][loc[1]]
        if c == "(":
            stack.append(loc)
        elif c == ")":
            q = stack.pop(); partner[loc] = q; partner[q] = loc
    for r in range(n):
        order = [(r + k) % n for k in range(n)]
        pos = {}
        k = 0
        for si in order:
            for di in range(len(strands_s[si])):
                pos[(si, di)] = k; k += 1
            k += 1
        s2, t2 = [], []
        for j, si in enumerate(order):
            if j:
                s2.append("+"); t2.append("+")
            for di in range(len(strands_s[si])):
                s2.append(strands_s[si][di])
                loc = (si, di)
                if loc in partner:
                    t2.append("(" if pos[loc] < pos[partner[loc]] else ")")
                else:
                    t2.append(".")
        out.append((s2, t2))
    return out
