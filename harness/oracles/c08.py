"""Direct statement of C08 on the implementation (property oracle; used only to
look for a failing input once a proof or the correspondence has broken).

References, all independent of the library: a quadratic bracket matcher, a
quadratic loop labelling (loop of a position = opening bracket of its innermost
enclosing pair, loops numbered in order of their opening bracket, 0 outermost;
both partners of a pair get the loop they enclose), union-find connectivity over
strands with base pairs as edges, exterior = loops containing a strand break or
the outer ends.

stdin: {"cases": [{"s": str, "seq": [names] | null}]}   stdout: {"failures": [...]}"""
import sys, json, gc, copy, warnings, logging
warnings.simplefilter("ignore")
logging.disable(logging.CRITICAL)
from dsdobjects.complex_utils import make_loop_index, SecondaryStructureError
from dsdobjects import base_classes as bc
from dsdobjects.singleton import clear_singletons


def matcher(s):
    partner = {}
    for j in range(len(s)):
        if s[j] == ")":
            i = j - 1
            while i >= 0 and not (s[i] == "(" and i not in partner):
                i -= 1
            if i < 0:
                return None
            partner[i] = j
            partner[j] = i
        elif s[j] not in "(.+":
            return None
    if any(s[i] == "(" and i not in partner for i in range(len(s))):
        return None
    return partner


def reference(s):
    """returns dict with flat->loc map, pair table, loop labels, exterior set, connectivity"""
    partner = matcher(s)
    if partner is None:
        return None
    strands = s.split("+")
    flat, k = {}, 0
    for si, x in enumerate(strands):
        for di in range(len(x)):
            flat[k] = (si, di)
            k += 1
        k += 1
    # loop number of the pair opened at i: 1 + number of opening brackets before i
    def own(i):
        return 1 + sum(1 for t in range(i) if s[t] == "(")

    def enclosing(k):
        best = None
        for i in range(k):
            if s[i] == "(" and partner[i] > k and (best is None or i > best):
                best = i
        return 0 if best is None else own(best)
    label = {}
    for k in range(len(s)):
        if s[k] == "(":
            label[k] = own(k)
        elif s[k] == ")":
            label[k] = own(partner[k])
        else:
            label[k] = enclosing(k)       # '.' and '+'
    pt = [[None] * len(x) for x in strands]
    li = [[None] * len(x) for x in strands]
    for k, (si, di) in flat.items():
        li[si][di] = label[k]
        if k in partner:
            pt[si][di] = flat[partner[k]]
    breaks = [k for k in range(len(s)) if s[k] == "+"]
    exterior = {0} | {label[k] for k in breaks}
    ends = [0] + [label[k] for k in breaks] + [0]
    myext = [[ends[i], ends[i + 1]] for i in range(len(strands))]
    # union-find over strands
    par = list(range(len(strands)))

    def find(x):
        while par[x] != x:
            x = par[x]
        return x
    for k, q in partner.items():
        a, b = find(flat[k][0]), find(flat[q][0])
        if a != b:
            par[a] = b
    connected = len({find(x) for x in range(len(strands))}) == 1
    return {"pt": pt, "li": li, "exterior": exterior, "myext": myext, "connected": connected,
            "flat": flat, "partner": partner, "strands": strands}


def toggle(n):
    return n[:-1] if n.endswith("*") else n + "*"


CLASSES = [getattr(bc, n) for n in ("DomainS", "StrandS", "ComplexS", "MacrostateS", "ReactionS") if hasattr(bc, n)]


def fresh():
    for c in CLASSES:
        clear_singletons(c)
    gc.collect()
    for c in CLASSES:
        if hasattr(c, "ID"):
            c.ID = 1


def check_utils(s, ref):
    pt = [[None if e is None else tuple(e) for e in r] for r in ref["pt"]]
    keep = copy.deepcopy(pt)
    try:
        li, myext = make_loop_index(pt, components=True)
    except Exception as e:
        return f"make_loop_index(components=True) raised {type(e).__name__}"
    if li != ref["li"]:
        return f"loop index (components=True) is {li}, loop decomposition says {ref['li']}"
    if [list(x) for x in myext] != ref["myext"]:
        return f"per-strand exterior intervals are {myext}, expected {ref['myext']}"
    try:
        li, ext = make_loop_index(pt)
    except SecondaryStructureError:
        if ref["connected"]:
            return "connected structure reported as disconnected"
        li = None
    except Exception as e:
        return f"make_loop_index raised {type(e).__name__}"
    if li is not None:
        if not ref["connected"]:
            return "disconnected structure reported as connected"
        if li != ref["li"]:
            return f"loop index is {li}, loop decomposition says {ref['li']}"
        if set(ext) != ref["exterior"]:
            return f"exterior loops are {sorted(ext)}, expected {sorted(ref['exterior'])}"
    if pt != keep:
        return "make_loop_index modified its argument"
    return None


def build(s, seq):
    fresh()
    objs = {}
    for n in seq:
        if n != "+" and n not in objs:
            base = n[:-1] if n.endswith("*") else n
            objs[base] = bc.DomainS(base, 7)
            objs[base + "*"] = bc.DomainS(base + "*", 7)
    return bc.ComplexS([n if n == "+" else objs[n] for n in seq], list(s)), objs


def check_object(s, seq, ref):
    c, keep = build(s, seq)
    if c.is_connected != ref["connected"]:
        return f"is_connected is {c.is_connected}, union-find says {ref['connected']}"
    unpaired = [loc for k, loc in sorted(ref["flat"].items()) if k not in ref["partner"]]
    lab = lambda loc: ref["li"][loc[0]][loc[1]]
    if ref["connected"]:
        got = [tuple(x) for x in c.exterior_domains]
        want = [loc for loc in unpaired if lab(loc) in ref["exterior"]]
        if got != want:
            return f"exterior_domains is {got}, expected {want}"
        got = [tuple(x) for x in c.enclosed_domains]
        want = [loc for loc in unpaired if lab(loc) not in ref["exterior"]]
        if got != want:
            return f"enclosed_domains is {got}, expected {want}"
        for k, loc in ref["flat"].items():
            if c.get_loop_index(loc) != lab(loc):
                return f"get_loop_index({loc}) is {c.get_loop_index(loc)}, expected {lab(loc)}"
    names = {loc: seq[k] for k, loc in ref["flat"].items()}
    want = all(names[ref["flat"][k]] == toggle(names[ref["flat"][q]]) for k, q in ref["partner"].items())
    # a fresh object as well: the predicate must not depend on what was computed before
    if c.is_domainlevel_complement != want:
        return f"is_domainlevel_complement is {c.is_domainlevel_complement}, expected {want}"
    del c, keep
    c, keep = build(s, seq)
    if c.is_domainlevel_complement != want:
        return f"is_domainlevel_complement (fresh object) is {c.is_domainlevel_complement}, expected {want}"
    if ref["connected"]:
        got = [tuple(x) for x in c.enclosed_domains]      # enclosed before exterior
        if got != [loc for loc in unpaired if lab(loc) not in ref["exterior"]]:
            return f"enclosed_domains (asked first) is {got}"
    return None


def check(case):
    s, seq = case["s"], case.get("seq")
    ref = reference(s)
    if ref is None or not all(ref["strands"]):
        return None          # outside the quantifier (ill-formed / empty strand)
    r = check_utils(s, ref)
    if r is None and seq:
        try:
            r = check_object(s, seq, ref)
        except Exception as e:
            r = f"object-level view raised {type(e).__name__}: {e}"
    return r


def main():
    req = json.load(sys.stdin)
    fails = []
    for c in req["cases"]:
        r = check(c)
        if r is not None:
            fails.append({"s": c["s"], "seq": c.get("seq"), "what": r})
    json.dump({"failures": fails}, sys.stdout)

main()
