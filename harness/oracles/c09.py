"""Direct statement of C09 on the implementation (property oracle; used only to
look for a failing input once a proof or the correspondence has broken).

Every strand gets unique domain names, so each strand of a part identifies the
original strand it came from.  References: quadratic bracket matcher, union-find
over strands with base pairs as edges.

stdin: {"cases": [{"s": str, "seq": [names] | null}]}   stdout: {"failures": [...]}"""
import sys, json, gc, copy, warnings, logging
warnings.simplefilter("ignore")
logging.disable(logging.CRITICAL)
from dsdobjects.complex_utils import split_complex_pt, split_complex_db
from dsdobjects import base_classes as bc
from dsdobjects.singleton import clear_singletons


def matcher(s):
    partner = {}
    for j in range(len(s)):
        if s[j] == ")":
            i = j - 1
            while i >= 0 and not (s[i] == "(" and i not in partner):
                i -= 1
            if i < 0:
                return None
            partner[i] = j
            partner[j] = i
        elif s[j] not in "(.+":
            return None
    if any(s[i] == "(" and i not in partner for i in range(len(s))):
        return None
    return partner


def tables(s):
    partner = matcher(s)
    if partner is None:
        return None
    strands = s.split("+")
    flat, k = {}, 0
    for si, x in enumerate(strands):
        for di in range(len(x)):
            flat[k] = (si, di)
            k += 1
        k += 1
    pt = [[None] * len(x) for x in strands]
    for k, (si, di) in flat.items():
        if k in partner:
            pt[si][di] = flat[partner[k]]
    return strands, pt


def classes(pt):
    par = list(range(len(pt)))

    def find(x):
        while par[x] != x:
            x = par[x]
        return x
    for si, r in enumerate(pt):
        for e in r:
            if e is not None:
                a, b = find(si), find(e[0])
                if a != b:
                    par[a] = b
    out = {}
    for x in range(len(pt)):
        out.setdefault(find(x), []).append(x)
    return sorted(out.values())


def pairs_of(pt, strand_id):
    """set of unordered pairs of (original strand, position)"""
    out = set()
    for si, r in enumerate(pt):
        for di, e in enumerate(r):
            if e is not None:
                out.add(frozenset([(strand_id[si], di), (strand_id[e[0]], e[1])]))
    return out


def table_ok(pt):
    """symmetric, in range, no self pair, non-crossing"""
    flatpos, k = {}, 0
    for si, r in enumerate(pt):
        for di in range(len(r)):
            flatpos[(si, di)] = k
            k += 1
    arcs = []
    for si, r in enumerate(pt):
        for di, e in enumerate(r):
            if e is None:
                continue
            e = tuple(e)
            if e not in flatpos or e == (si, di):
                return False
            back = pt[e[0]][e[1]]
            if back is None or tuple(back) != (si, di):
                return False
            a, b = flatpos[(si, di)], flatpos[e]
            if a < b:
                arcs.append((a, b))
    for (a, b) in arcs:
        for (c, d) in arcs:
            if a < c < b < d:
                return False
    return True


def is_cyclic_increasing(ids):
    n = len(ids)
    return any(all(ids[(k + i) % n] < ids[(k + i + 1) % n] for i in range(n - 1)) for k in range(n))


def check_parts(parts, stab, pt, what):
    index = {tuple(x): i for i, x in enumerate(stab)}
    seen = []
    comp_sets = []
    allpairs = set()
    for (st, p) in parts:
        try:
            ids = [index[tuple(x)] for x in st]
        except KeyError:
            return f"{what}: a part contains a strand that is not an input strand (content changed)"
        if [len(x) for x in st] != [len(r) for r in p]:
            return f"{what}: shape of a part's pair table differs from its strands"
        if not is_cyclic_increasing(ids):
            return f"{what}: part {ids} does not keep the original cyclic strand order"
        seen += ids
        comp_sets.append(sorted(ids))
        p = [[None if e is None else tuple(e) for e in r] for r in p]
        if not table_ok(p):
            return f"{what}: part {ids} is not a well-formed pair table"
        if len(classes(p)) != 1:
            return f"{what}: part {ids} is not connected"
        allpairs |= pairs_of(p, ids)
    if sorted(seen) != list(range(len(stab))):
        return f"{what}: parts {comp_sets} do not partition the strands"
    want = pairs_of(pt, list(range(len(pt))))
    if allpairs != want:
        lost, new = want - allpairs, allpairs - want
        return f"{what}: base pairs lost {sorted(map(sorted, lost))} / introduced {sorted(map(sorted, new))}"
    if sorted(comp_sets) != classes(pt):
        return f"{what}: parts {sorted(comp_sets)} are not the connected components {classes(pt)}"
    return None


CLASSES = [getattr(bc, n) for n in ("DomainS", "StrandS", "ComplexS", "MacrostateS", "ReactionS") if hasattr(bc, n)]


def fresh():
    for c in CLASSES:
        clear_singletons(c)
    gc.collect()
    for c in CLASSES:
        if hasattr(c, "ID"):
            c.ID = 1


def rotations(seq, sst):
    """all strand rotations of a (sequence, structure) pair, computed from tables"""
    stab, pt = [x.split(",") for x in ",".join(seq).split(",+,")], tables("".join(sst))[1]
    n = len(stab)
    out = []
    for k in range(n):
        rs = stab[k:] + stab[:k]
        rp = [[None if e is None else ((e[0] - k) % n, e[1]) for e in r] for r in pt[k:] + pt[:k]]
        out.append((rs, rp))
    return out


def check(case):
    s = case["s"]
    t = tables(s)
    if t is None or not all(t[0]):
        return None
    strands, pt = t
    pt = [[None if e is None else tuple(e) for e in r] for r in pt]
    stab = [[f"d{si}_{di}" for di in range(len(x))] for si, x in enumerate(strands)]
    keep = copy.deepcopy((stab, pt))
    try:
        parts = list(split_complex_pt(stab, pt))
    except Exception as e:
        return f"split_complex_pt raised {type(e).__name__}"
    if (stab, pt) != keep:
        return "split_complex_pt modified its arguments"
    r = check_parts(parts, stab, pt, "split_complex_pt")
    if r:
        return r
    if len(classes(pt)) == 1 and parts != [(stab, pt)]:
        return "a connected complex is not returned unchanged"
    # dot-bracket wrapper
    seq = []
    for si, x in enumerate(stab):
        seq += (["+"] if si else []) + x
    sst = list(s)
    keep = (list(seq), list(sst))
    try:
        dbs = list(split_complex_db(seq, sst))
    except Exception as e:
        return f"split_complex_db raised {type(e).__name__}"
    if (seq, sst) != keep:
        return "split_complex_db modified its arguments"
    conv = []
    for (nseq, nsst) in dbs:
        tt = tables("".join(nsst))
        if tt is None:
            return f"split_complex_db: part {''.join(nsst)} is not well-formed"
        st = [x.split(",") for x in ",".join(nseq).split(",+,")]
        conv.append((st, [[None if e is None else tuple(e) for e in r] for r in tt[1]]))
    r = check_parts(conv, stab, pt, "split_complex_db")
    if r:
        return r
    # object level, with the caller's (possibly repeating) domain names
    names = case.get("seq")
    if names:
        fresh()
        objs = {}
        for n in names:
            if n != "+" and n not in objs:
                base = n[:-1] if n.endswith("*") else n
                objs[base] = bc.DomainS(base, 7)
                objs[base + "*"] = bc.DomainS(base + "*", 7)
        c = bc.ComplexS([n if n == "+" else objs[n] for n in names], list(s))
        try:
            first = list(c.split())
            second = list(c.split())
        except Exception as e:
            return f"ComplexS.split raised {type(e).__name__}"
        if len(first) != len(second) or any(a is not b for a, b in zip(first, second)):
            return "splitting twice does not yield identical objects"
        nstab = [x.split(",") for x in ",".join(names).split(",+,")]
        comps = classes(pt)
        if len(first) != len(comps):
            return f"split() yields {len(first)} objects for {len(comps)} components"
        remaining = [([nstab[i] for i in ids], ids) for ids in comps]
        for o in first:
            oseq, osst = [str(x) for x in o.sequence], list(o.structure)
            rots = rotations(oseq, osst)
            hit = None
            for k, (cs, ids) in enumerate(remaining):
                sub = {x: j for j, x in enumerate(ids)}
                cp = [[None if e is None else (sub[e[0]], e[1]) for e in pt[i]] for i in ids]
                if any(rs == cs and rp == cp for rs, rp in rots):
                    hit = k
                    break
            if hit is None:
                return f"split() object {oseq} {''.join(osst)} is not (a rotation of) a remaining component"
            remaining.pop(hit)
        if len(comps) == 1 and first[0] is not c:
            return "split() of a connected complex does not yield the complex itself"
    return None


def main():
    req = json.load(sys.stdin)
    fails = []
    for c in req["cases"]:
        try:
            r = check(c)
        except Exception as e:     # an oracle crash must be visible, not a pass
            r = f"oracle error {type(e).__name__}: {e}"
        if r is not None:
            fails.append({"s": c["s"], "seq": c.get("seq"), "what": r})
    json.dump({"failures": fails}, sys.stdout)

main()
