"""Direct statement of C16 (dynamic clauses) on the implementation: reading any text
returns a dictionary or raises a parse error / declared library error; ignored
reactions do not abort; a failed read leaves previously held objects valid singletons."""
import sys, json, gc, warnings, logging
warnings.simplefilter("ignore")
logging.disable(logging.CRITICAL)
from pyparsing import ParseException
from dsdobjects import objectio, base_classes as bc
from dsdobjects.singleton import clear_singletons, SingletonError
from dsdobjects.base_classes import ObjectInitError
from dsdobjects.complex_utils import SecondaryStructureError
from dsdobjects.objectio import PilFormatError

ALLOWED = (ParseException, PilFormatError, SingletonError, ObjectInitError, SecondaryStructureError,
           NotImplementedError, AssertionError)
CLASSES = (bc.DomainS, bc.StrandS, bc.ComplexS, bc.MacrostateS, bc.ReactionS)


def fresh():
    objectio.clear_io_objects()
    for c in CLASSES:
        clear_singletons(c)
        if hasattr(c, "ID"):
            c.ID = 1
    gc.collect()
    objectio.set_io_objects()


def ignore_argument(ig):
    """the `ignore` argument of a case: the same identifiers (built at run time: equal, not identical, to the literals
    of the library) in the requested container form"""
    items = ["".join(list(x)) for x in ig["items"]]
    form = ig["form"]
    return {"list": list, "tuple": tuple, "set": set, "frozenset": frozenset,
            "dict": lambda xs: dict.fromkeys(xs, True)}[form](items)


def statement_lines(text):
    """the lines of a document that carry a statement (blank lines and comment lines are no input of read_pil_line)"""
    return [l for l in text.split("\n") if l.strip() and not l.strip().startswith("#")]


def check_lines(case):
    """the document handed to read_pil_line one line at a time AS TEXT, in one session (nothing is cleared in between, every
    returned object stays held), the whole pass repeated: every call returns an object of the configured classes or the
    parsed line (ignored / uninterpreted lines), or raises a parse error / declared error; a line that is announced as
    ignored, and every line of a document that must be read, returns; a line read again gives an outcome of the same kind"""
    spec = case["by_line"]
    lines = statement_lines(case["text"])
    ignorable = set(spec.get("ignorable", []))
    held, first = [], {}
    for rnd in range(spec.get("repeat", 1)):
        for k, l in enumerate(lines):
            arg = "".join(list(l))            # equal, not identical, from call to call
            where = f"read_pil_line({l!r}) (statement {k + 1} of {len(lines)}, pass {rnd + 1}, all earlier results held)"
            try:
                obj = objectio.read_pil_line(arg)
            except ALLOWED as e:
                if l in ignorable:
                    return f"{where}: a line that is announced as ignored was refused: {type(e).__name__}: {e}"
                if case.get("must_read") and rnd == 0:
                    return f"{where}: a line of a valid document was refused: {type(e).__name__}: {e}"
                first.setdefault(k, ("error", None))
                continue
            except RecursionError:
                return None
            except BaseException as e:
                return f"{where} raised {type(e).__name__}: {e}"
            if isinstance(obj, list):
                if not obj or not isinstance(obj[0], str):
                    return f"{where} returned the list {obj!r:.100}, which is not a parsed statement"
                now = ("line", json.dumps(obj, default=str))
            elif isinstance(obj, CLASSES):
                if l in ignorable:
                    return f"{where}: a line that is announced as ignored gave the object {obj!r:.100}"
                now = ("object", type(obj).__name__ + ":" + str(obj.name))
            else:
                return f"{where} returned {type(obj).__name__}: neither an object of the reader's classes nor the parsed line"
            was = first.setdefault(k, now)
            if was[0] != "error" and was != now:
                return f"{where} gave {now}, the same text gave {was} in the first pass"
            held.append(obj)
    return held


def check(case):
    text = case["text"]
    kw = {"ignore": ignore_argument(case["ignore"])} if case.get("ignore") else {}
    given = repr(kw["ignore"]) if kw else None
    fresh()
    held = None
    line_objects = None
    if case.get("by_line"):
        # ... and afterwards, with everything still held, the whole document is read as usual (clauses below)
        line_objects = check_lines(case)
        if not isinstance(line_objects, list):
            return line_objects
    if case.get("prelude"):
        held = objectio.read_pil(case["prelude"])
        snapshot = sorted((k, n, id(o)) for k in ("domains", "strands", "complexes", "macrostates") for n, o in held[k].items())
    import signal
    class _Stuck(BaseException):
        pass
    def _alarm(sig, frm):
        raise _Stuck()
    signal.signal(signal.SIGALRM, _alarm)
    signal.alarm(60)                      # a read that does not come back is an undeclared outcome too
    try:
        out = objectio.read_pil(text, **kw)
    except ALLOWED as e:
        if case.get("must_read") and kw:
            return (f"a valid document (apart from lines announced as ignored) was refused when read with ignore = {given}, "
                    f"which leaves a consistent system: {type(e).__name__}: {e}")
        if case.get("must_read"):
            return f"a document whose only oddity is a line that is announced as ignored was refused: {type(e).__name__}: {e}"
        out = None
    except RecursionError:
        return None
    except _Stuck:
        return "read_pil did not return within 60 s"
    except BaseException as e:
        return f"read_pil raised {type(e).__name__}: {e}" + (f" (ignore = {given})" if kw else "")
    finally:
        signal.alarm(0)
    if kw and repr(kw["ignore"]) != given:
        return f"read_pil changed its `ignore` argument from {given} to {kw['ignore']!r}"
    if out is not None and case.get("expect_reactions") is not None:
        n = len(out["det_reactions"]) + len(out["con_reactions"])
        if n != case["expect_reactions"]:
            return f"{n} reactions read, {case['expect_reactions']} have a rate and a known type"
    if held is not None:
        # every previously held object is still the singleton of its name
        cls = {"domains": bc.DomainS, "strands": bc.StrandS, "complexes": bc.ComplexS, "macrostates": bc.MacrostateS}
        for k, c in cls.items():
            for n, o in held[k].items():
                try:
                    again = c(n) if k == "domains" else c(None, name=n) if k == "strands" else \
                        c(None, None, n) if k == "complexes" else c(None, n)
                except Exception as e:
                    return f"held {k[:-1]} {n} cannot be looked up after the failed read: {type(e).__name__}"
                if again is not o:
                    return f"held {k[:-1]} {n} is no longer the singleton of its name"
    return None


def main():
    req = json.load(sys.stdin)
    fails = []
    for c in req["cases"]:
        try:
            r = check(c)
        except BaseException as e:
            r = f"oracle error {type(e).__name__}: {e}"
        if r:
            fails.append({"case": c, "what": r})
    out = None
    fresh()
    json.dump({"failures": fails}, sys.stdout)

main()
