"""Replays the recorded (open) findings of known_findings.json on the implementation.
stdin: {"names": [...]}   stdout: {name: description of what still fails, or null}"""
import sys, json, gc, warnings, logging
warnings.simplefilter("ignore")
logging.disable(logging.CRITICAL)
from dsdobjects import objectio, base_classes as bc
from dsdobjects.singleton import clear_singletons
from dsdobjects.dsdparser import parse_pil_string


def fresh():
    objectio.clear_io_objects()
    for c in (bc.DomainS, bc.StrandS, bc.ComplexS, bc.MacrostateS, bc.ReactionS):
        clear_singletons(c)
        c.ID = 1 if hasattr(c, "ID") else None
    gc.collect()


def c13_missing_name():
    accepted = []
    for t in ("length = 5\n", "sequence = NNN\n", "strand = a b\n", "domain = short\n"):
        try:
            r = parse_pil_string(t)
            if r and r[0][0] == "kernel-complex":
                accepted.append(t.strip())
        except Exception:
            pass
    return (f"statements without a name are accepted as kernel complexes named like the keyword: {accepted}" if accepted else None)


def c15_mixed_session():
    fresh()
    class MyD(bc.DomainS):
        pass
    a = MyD("a", 5)
    s = bc.StrandS([a], "s")
    objectio.set_io_objects()
    out = objectio.read_pil("X = s*\n")
    d = list(out["complexes"]["X"].sequence)[0]
    bad = type(d) is not bc.DomainS
    res = f"reader produced {type(d).__name__}({d.name}) instead of a DomainS" if bad else None
    del out, d, s, a
    clear_singletons(MyD)
    fresh()
    return res


def c15_failing_ctor_canon_held():
    fresh()
    a = bc.DomainS("a", 5)
    class F(bc.ComplexS):
        FAIL = True
        def __init__(self, *x, **k):
            super().__init__(*x, **k)
            if F.FAIL:
                raise RuntimeError("boom")
    held = []
    try:
        F([a, a], list(".."), name="f")
    except RuntimeError as e:
        held.append(e)
    F.FAIL = False
    res = None
    try:
        F([a, a], list(".."), name="f")
    except Exception as e:
        res = (f"a ComplexS subclass whose __init__ raised after super().__init__: while the exception is still referenced the "
               f"same request is refused with {type(e).__name__} (the rotation keys registered by ComplexS.__init__ stay bound)")
    held.clear()
    clear_singletons(F)
    fresh()
    return res


W = {"c15_failing_ctor_canon_held": c15_failing_ctor_canon_held, "c13_missing_name": c13_missing_name, "c15_mixed_session": c15_mixed_session}
req = json.load(sys.stdin)
json.dump({n: W[n]() for n in req["names"]}, sys.stdout)
