"""Direct statement of C19 on the implementation; see peg_oracle.py."""
import peg_oracle
peg_oracle.main("seesaw")
