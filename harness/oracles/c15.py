"""Direct statement of C15 on the implementation: see regoracle.py (shared with the other registry
properties).  stdin: {"histories": [{"ops": [...], "nslots": n}], "deep": bool}"""
import sys, json
import regoracle

if __name__ == "__main__":
    payload = json.load(sys.stdin)
    payload["checks"] = ["C15"]
    print(json.dumps(regoracle.run(payload)))
