"""Direct statements of C01 / C04 / C05 / C15 on the implementation (property oracles; used
only to look for a failing history once a proof or the correspondence has broken).

stdin : {"checks": ["C01", ...], "histories": [{"ops": [...], "nslots": n}, ...], "deep": bool}
stdout: {"failures": [{"history": k, "step": j, "ops": [... up to step j], "nslots": n,
                       "check": "C01", "what": "..."}], "steps": total}

Independent of the Coq model: live objects are found through the registries, the weak references
to everything handed out and (deep) a scan of gc.get_objects(); expected reachability is computed
from the slots through the containment attributes."""
import sys, os, json, gc, weakref, warnings, logging
warnings.simplefilter("ignore")
logging.disable(logging.CRITICAL)
sys.path.insert(0, os.path.dirname(os.path.dirname(os.path.abspath(__file__))))
from impl import registry as reg          # noqa: E402  (the zoo and the op interpreter)
from dsdobjects.base_classes import DomainS, ComplexS, StrandS, MacrostateS, ReactionS   # noqa: E402
from dsdobjects import SingletonError     # noqa: E402

BASES = (DomainS, ComplexS, MacrostateS, ReactionS)


def rotations(seq, sst):
    """every rotation of (names, structure), by flat re-indexing (independent of the library)"""
    ss, tt = [[]], [[]]
    for x, y in zip(seq, sst):
        if x == "+":
            ss.append([]); tt.append([])
        else:
            ss[-1].append(x); tt[-1].append(y)
    n = len(ss)
    stack, partner = [], {}
    for si in range(n):
        for di in range(len(ss[si])):
            c = tt[si][di]
            if c == "(":
                stack.append((si, di))
            elif c == ")":
                if not stack:
                    return None
                q = stack.pop(); partner[(si, di)] = q; partner[q] = (si, di)
    if stack:
        return None
    out = []
    for r in range(n):
        order = [(r + k) % n for k in range(n)]
        pos, k = {}, 0
        for si in order:
            for di in range(len(ss[si])):
                pos[(si, di)] = k; k += 1
        s2, t2 = [], []
        for j, si in enumerate(order):
            if j:
                s2.append("+"); t2.append("+")
            for di in range(len(ss[si])):
                s2.append(ss[si][di])
                loc = (si, di)
                t2.append("." if loc not in partner else "(" if pos[loc] < pos[partner[loc]] else ")")
        out.append((tuple(s2), tuple(t2)))
    return out


def canon_of(o):
    """the canonical form as the property defines it, computed from what the object contains (not from the tuple the
    library stored for it): a macrostate is its complexes in canonical order, whatever order / container they came in;
    a reaction is its two sorted sides and its type"""
    if isinstance(o, DomainS):
        return (o.name, o.length)
    if isinstance(o, MacrostateS):
        return sorted(canon_of(c) for c in o.complexes)
    if isinstance(o, ReactionS):
        return [sorted(canon_of(x) for x in o.reactants), sorted(canon_of(x) for x in o.products), o.rtype]
    return reg.render(o.canonical_form)


def freeze(x):
    return tuple(freeze(y) for y in x) if isinstance(x, (list, tuple)) else x


def children(o):
    if isinstance(o, ComplexS):
        return [x for x in o._sequence if not isinstance(x, str)]
    if isinstance(o, MacrostateS):
        return list(o.complexes)
    if isinstance(o, ReactionS):
        return list(o.reactants) + list(o.products)
    return []


class Oracle(reg.Machine):
    def __init__(self, nslots, checks, deep):
        super().__init__(nslots, [])
        self.checks, self.deep = set(checks), deep
        self.fail = []

    # -- live instances, found three ways --------------------------------
    def live(self):
        seen, out = set(), []

        def add(o):
            if o is not None and id(o) not in seen and type(o) in reg.KIND:
                seen.add(id(o)); out.append(o)
        for r in self.handed:
            add(r())
        for cls in reg.ZOO:
            for o in list(cls._instanceNames.values()) + list(cls._instanceCanon.values()):
                add(o)
        if self.deep:
            for o in gc.get_objects():
                if isinstance(o, BASES):
                    add(o)
        return out

    def snapshot(self):
        return {reg.label(cls): (sorted((k, id(v)) for k, v in cls._instanceNames.items()),
                               sorted((repr(reg.render(k)), id(v)) for k, v in cls._instanceCanon.items()))
                for cls in reg.ZOO}

    def reachable(self):
        seen, todo = {}, [s for s in self.slots if s is not None]
        while todo:
            o = todo.pop()
            if id(o) in seen:
                continue
            seen[id(o)] = o
            todo += [c for c in children(o) if type(c) in reg.KIND]
        return seen

    def bad(self, check, what):
        if check in self.checks:
            self.fail.append((check, what))

    # -- the request as the user wrote it ----------------------------------
    def request_keys(self, op):
        """(class, name or None, canonical form or None) when both are determined by the arguments"""
        t, S = op[0], self.slots
        cls = reg.ZOO[op[2]]
        try:
            if t == "dom":
                name, length, prefix, dtype = op[3:]
                if name is None or length is None:
                    return cls, name, None
                return cls, name, (name, length)
            if t == "cplx":
                seq, sst, name = op[3], op[4], op[5]
                if seq is None:
                    return cls, name, None          # name-only look-up
                if sst is None or len(seq) != len(sst):
                    return None
                names = [str(S[e]) if isinstance(e, int) else e for e in seq]
                rots = rotations(names, list(sst))
                if not rots:
                    return None
                return cls, name, freeze(min(rots))
            if t == "strand":
                seq, name = op[3], op[4]
                if seq is None:
                    return cls, name, None
                names = tuple(str(S[e]) if isinstance(e, int) else e for e in seq)
                return cls, name, (names, tuple("*" for _ in names))
        except Exception:
            pass
        if t in ("macro", "rxn") and op[3] is None:
            return cls, op[-1], None          # name-only look-up
        try:
            if t == "macro":
                ms = [S[e] for e in op[3]]
                if not ms or any(not isinstance(m, ComplexS) for m in ms):
                    return None
                forms = sorted(canon_of(m) for m in ms)
                name = op[4] if op[4] is not None else sorted(ms, key=canon_of)[0].name
                if name not in [m.name for m in ms]:
                    return None
                return cls, name, freeze(forms)
            if t == "rxn":
                r, p = [S[e] for e in op[3][0]], [S[e] for e in op[3][1]]
                kinds = {isinstance(m, MacrostateS) for m in r + p}
                if any(not isinstance(m, (ComplexS, MacrostateS)) for m in r + p) or len(kinds) > 1:
                    return None
                key = canon_of
                rs, ps = sorted(r, key=key), sorted(p, key=key)
                name = op[5] if op[5] is not None else "[{}] {} -> {}".format(
                    op[4], " + ".join(m.name for m in rs), " + ".join(m.name for m in ps))
                return cls, name, freeze([[key(m) for m in rs], [key(m) for m in ps], op[4]])
        except Exception:
            pass
        return None

    def plain_request(self, op):
        """nothing in the request besides name and canonical form can contradict the live object"""
        if op[0] != "dom":
            return reg.FAIL[reg.ZOO[op[2]]] == "none"
        cls, (name, length, prefix, dtype) = reg.ZOO[op[2]], op[3:]
        if reg.FAIL[cls] != "none" or not isinstance(length, int) or length < 0 or not name or not name.strip("*") \
                or name.endswith("**"):
            return False
        return dtype is None or (dtype in ("short", "long") and (dtype == "short") == (length <= cls.DTYPE_CUTOFF))

    # -- one step with all checks --------------------------------------------
    def step(self, op):
        before_live = {id(o): o for o in self.live()}
        # what the user's references reach before the request: an object nothing reaches has been dropped, it is
        # not "live" for the property even when something inside the library still holds on to it
        reach_before = set(self.reachable())
        before_snap = self.snapshot()
        before_ids = {cls: cls.__dict__.get("ID") for cls in reg.ZOO}
        req = None
        if op[0] in ("dom", "cplx", "strand", "macro", "rxn") and reg.KIND[reg.ZOO[op[2]]] == \
                {"dom": "D", "cplx": "C", "strand": "S", "macro": "M", "rxn": "R"}[op[0]]:
            req = self.request_keys(op)
            if op[0] in ("cplx", "strand") and op[3] is not None and any(isinstance(e, int) and self.slots[e] is None for e in op[3]):
                req = None
        oN = oC = None
        if req:
            cls, name, canon = req
            for o in before_live.values():
                if type(o) is cls:
                    if name is not None and o.name == name:
                        oN = o
                    if canon is not None and freeze(canon_of(o)) == canon:
                        oC = o
            o = None        # (a loop variable would keep the last object alive)
        # execute, holding the caught error while `existing` is inspected
        held = None
        S = self.slots
        outcome = None
        inv_src = S[op[2]] if op[0] == "inv" and op[2] < len(S) and isinstance(S[op[2]], DomainS) else None
        try:
            outcome = self.execute(op)
        except BaseException as e:          # noqa
            held = e
            outcome = ["raised", type(e).__name__]
        existing = getattr(held, "existing", None) if held is not None else None
        if held is not None and "C05" in self.checks:
            # while the error is held nothing reachable may be gone
            for o in self.reachable().values():
                if type(o)._instanceNames.get(o.name) is not o:
                    self.bad("C05", f"{o!r} is referenced but lost its registration while a caught error was held")
            o = None
        res = None
        if outcome[0] in ("created", "returned"):
            res = self.slots[op[1]] if op[1] < len(self.slots) else None
        # ---- C01 ---------------------------------------------------------
        if inv_src is not None and res is not None and reg.FAIL[type(inv_src)] == "none" and inv_src.name.strip("*"):
            # every class has its own memory: what ~x hands out is THE live object of x's class with the complementary
            # name, i.e. what both keys lead to in the registries of type(x) (and of no other class instead)
            K = type(inv_src)
            cn = inv_src.name[:-1] if inv_src.name.endswith("*") else inv_src.name + "*"
            if type(res) is not K or K._instanceNames.get(cn) is not res or K._instanceCanon.get((cn, inv_src.length)) is not res:
                self.bad("C01", f"~{inv_src!r} (a {reg.label(K)}) handed out {res!r} (a {reg.label(type(res))}), which is not "
                                f"what the name {cn!r} / the canonical form {(cn, inv_src.length)!r} lead to in {reg.label(K)}: "
                                f"{K._instanceNames.get(cn)!r}")
            K = None
        inv_src = None
        if res is not None and id(res) in before_live and id(res) not in reach_before:
            self.bad("C01", f"the request handed out {res!r}, which existed before the request although every reference "
                            f"to it had been dropped (a dropped object is not live: the request must create or refuse)")
        if outcome[0] == "raised":
            kind = outcome[1]
            if kind == "SingletonError" and req:
                gone = [o for o in (oN, oC) if o is not None and id(o) not in reach_before]
                if gone and all(o is None or id(o) not in reach_before for o in (oN, oC)):
                    self.bad("C01", f"a request was refused with SingletonError because of {gone[0]!r}, to which every "
                                    f"reference had been dropped; no live object has the requested name or canonical form")
                gone = None
            if req and req[1] is not None and req[2] is not None and oN is not None and oN is oC and \
                    id(oN) in reach_before and self.plain_request(op):
                self.bad("C01", f"a request consistent with the live {oN!r} (its name, its canonical form) raised {kind} "
                                f"instead of returning it")
            if kind == "SingletonError":
                if existing is not None and req and req[2] is not None and existing is not oC:
                    self.bad("C01", f"SingletonError.existing is {existing!r}, the live owner of the requested canonical form is {oC!r}")
                if existing is not None and id(existing) not in before_live:
                    self.bad("C01", "SingletonError.existing is not an object that was live before the request")
        if req and outcome[0] in ("created", "returned") and res is not None:
            cls, name, canon = req
            if name and canon is not None and op[0] != "dom" and reg.FAIL[cls] == "none" and \
                    (oN is not None or oC is not None) and oN is not oC:
                self.bad("C01", f"a request whose name belongs to {oN!r} and whose canonical form belongs to {oC!r} "
                                f"was not refused: it {outcome[0]} {res!r}")
            if name is not None and canon is not None:
                if oN is not None and oN is oC and res is not oN:
                    self.bad("C01", f"request consistent with the live {oN!r} returned another object")
                if outcome[0] == "created" and id(res) not in before_live and (oN is not None or oC is not None):
                    self.bad("C01", f"request created {res!r} although name or canonical form belong to a live object "
                                    f"(name: {oN!r}, canonical form: {oC!r})")
            if op[0] != "dom" and reg.FAIL[cls] == "none":
                # both keys of the request lead to the object handed out (in whatever order / container the parts came)
                if name is not None and res.name != name:
                    self.bad("C01", f"a request for the name {name!r} handed out {res!r}")
                if canon is not None and freeze(canon_of(res)) != canon:
                    self.bad("C01", f"a request for the canonical form {canon!r} handed out {res!r} with the "
                                    f"canonical form {freeze(canon_of(res))!r}")
                if canon is not None and type(res)._instanceCanon.get(res.canonical_form) is res and \
                        freeze(reg.render(res.canonical_form)) != freeze(canon_of(res)):
                    self.bad("C01", f"{res!r} is registered under {res.canonical_form!r}, which is not the canonical "
                                    f"form of its contents")
            if name is not None and canon is None and op[0] != "dom":
                if id(res) not in before_live:
                    self.bad("C01", "a name-only request created an object")
            if op[0] == "dom" and name is not None and op[4] is None and op[6] is None and id(res) not in before_live:
                # name-only domain request: may only create x* from a live x, with its length
                partner = [o for o in before_live.values() if type(o) is cls and o.name + "*" == name]
                if not name.endswith("*") or not partner or partner[0].length != res.length:
                    self.bad("C01", f"name-only request {name!r} created {res!r} without a live complement of that length")
                partner = None
        held = None
        existing = None
        oN = oC = None
        # after the error is dropped: refused requests change nothing
        after_snap = self.snapshot()
        if outcome[0] == "raised":
            if after_snap != before_snap:
                diff = [c for c in after_snap if after_snap[c] != before_snap[c]]
                tag = "C15" if outcome[1] == "UserInitError" else "C01"
                self.bad(tag, f"a request refused with {outcome[1]} changed the registries of {diff}")
                if outcome[1] == "UserInitError":
                    self.bad("C01", f"a request refused with {outcome[1]} changed the registries of {diff}")
            now = {id(o) for o in self.live()}
            if not set(before_live) <= now:
                self.bad("C01", f"a request refused with {outcome[1]} released a live object")
            if now - set(before_live):
                self.bad("C05" if outcome[1] != "UserInitError" else "C15",
                         f"a request refused with {outcome[1]} left a new live object behind")
            if outcome[1] == "SingletonError" and op[0] in ("dom", "cplx", "strand", "macro", "rxn"):
                # (split() is a sequence of requests: the parts handed out before the refused one keep their numbers)
                for cls in reg.ZOO:
                    if cls.__dict__.get("ID") != before_ids[cls]:
                        self.bad("C01", f"a request refused with SingletonError changed {cls.__name__}.ID")
        del before_live
        live = self.live()
        # one live object per name and per canonical form, both keys lead to it
        by = {}
        for o in live:
            cls = type(o)
            for what, k in (("name", o.name), ("canonical form", freeze(canon_of(o)))):
                other = by.setdefault((cls, what, k), o)
                if other is not o:
                    self.bad("C01", f"two live {cls.__name__} objects with one {what}: {k!r}")
            if cls._instanceNames.get(o.name) is not o:
                self.bad("C01", f"live {o!r} is not what its name is bound to in {cls.__name__}")
            if cls._instanceCanon.get(o.canonical_form if not isinstance(o, DomainS) else (o.name, o.length)) is not o:
                self.bad("C01", f"live {o!r} is not what its canonical form is bound to in {cls.__name__}")
        # ---- C15: registries hold objects of exactly their class -------------
        for cls in reg.ZOO:
            for k, v in list(cls._instanceNames.items()) + list(cls._instanceCanon.items()):
                if type(v) is not cls:
                    self.bad("C15", f"registry of {reg.label(cls)} holds a {reg.label(type(v))} under {k!r}")
        if res is not None and op[0] in ("dom", "cplx", "strand", "macro", "rxn") and type(res) is not reg.ZOO[op[2]]:
            self.bad("C15", f"{reg.label(reg.ZOO[op[2]])}(...) returned a {reg.label(type(res))}")
        if op[0] == "inv" and res is not None and type(res) is not type(self.slots[op[2]] if op[2] != op[1] else res):
            self.bad("C15", "~d is of another class than d")
        # ---- C04 ------------------------------------------------------------
        doms = [o for o in live if isinstance(o, DomainS)]
        idx = {(type(o), o.name): o for o in doms}
        for o in doms:
            p = idx.get((type(o), o.name + "*"))
            if p is not None and p.length != o.length:
                self.bad("C04", f"{o!r} and {p!r} are live with different lengths")
            want = "short" if o.length <= type(o).DTYPE_CUTOFF else "long"
            if o.dtype != want:
                self.bad("C04", f"{o!r}.dtype is {o.dtype!r}")
        if op[0] == "dom" and res is not None and outcome[0] == "created" and op[4] is None and op[6] in ("short", "long"):
            cls = reg.ZOO[op[2]]
            base = op[3][:-1] if op[3] and op[3].endswith("*") else (op[3] + "*" if op[3] else None)
            if base is None or (cls, base) not in idx:
                want = cls.SHORT_DOM_LEN if op[6] == "short" else cls.LONG_DOM_LEN
                if res.length != want:
                    self.bad("C04", f"dtype-only request created {res!r}, class default is {want}")
        if op[0] == "dom" and op[4] is not None and op[6] in ("short", "long") and reg.KIND[reg.ZOO[op[2]]] == "D":
            contradict = (op[6] == "short") != (op[4] <= reg.ZOO[op[2]].DTYPE_CUTOFF)
            if contradict and outcome != ["raised", "ObjectInitError"]:
                self.bad("C04", f"contradictory dtype {op[6]!r} and length {op[4]} gave {outcome}")
        if "C04" in self.checks:
            for s in [x for x in self.slots if isinstance(x, DomainS)]:
                if not s.name.strip("*"):
                    continue          # outside the property's quantifier: name[-1] of '' fails
                try:
                    c = ~s
                    if c.length != s.length or c.name != (s.name[:-1] if s.name.endswith("*") else s.name + "*"):
                        self.bad("C04", f"~{s!r} is {c!r}")
                    if (~c) is not s:
                        self.bad("C04", f"~~{s!r} is not the same object")
                    del c
                except SingletonError:
                    self.bad("C04", f"~{s!r} raises SingletonError")
                except Exception as e:
                    self.bad("C04", f"~{s!r} raises {type(e).__name__}")
        del doms, idx
        # ---- C05 ---------------------------------------------------------------
        if "C05" in self.checks:
            self.lifetime("after the operation")
            cx = [x for x in self.slots if isinstance(x, ComplexS) and not isinstance(x, StrandS)]
            for c in cx:
                try:
                    parts = list(c.split()); del parts
                except Exception:
                    pass
                for f in (lambda: list(c.rotate()), lambda: list(c.rotate_pt()), lambda: list(c.pair_table),
                          lambda: list(c.strand_table), lambda: c.exterior_domains, lambda: c.enclosed_domains,
                          lambda: c.is_connected, lambda: c.kernel_string, lambda: c.domains, lambda: c.size,
                          lambda: repr(c), lambda: hash(c), lambda: c == c):
                    try:
                        f()
                    except Exception:
                        pass
                f = None
            del cx
            self.lifetime("after split()/rotate()/queries on the held complexes")
        del live
        return outcome

    def lifetime(self, when):
        reach = self.reachable()
        for n, r in enumerate(self.handed):
            o = r()
            if o is None:
                continue
            if id(o) not in reach:
                self.bad("C05", f"{o!r} is alive {when} although no slot reaches it")
            del o
        for o in reach.values():
            cls = type(o)
            if cls._instanceNames.get(o.name) is not o:
                self.bad("C05", f"{o!r} is referenced but no longer the singleton of its name ({when})")
        live_now = self.live()
        for o in live_now:
            if id(o) not in reach:
                self.bad("C05", f"{o!r} is alive {when} although no slot reaches it")
        del live_now, reach

    def execute(self, op):
        """like Machine.run_op but lets the exception out"""
        tag, S = op[0], self.slots
        if tag in ("dom", "cplx", "strand", "macro", "rxn", "inv"):
            dst = op[1]
            if tag == "inv":
                src = op[2]
                if src >= len(S) or S[src] is None or not isinstance(S[src], DomainS):
                    return ["skipped"]
                obj = ~S[src]
            else:
                if reg.KIND[reg.ZOO[op[2]]] != {"dom": "D", "cplx": "C", "strand": "S", "macro": "M", "rxn": "R"}[tag]:
                    return ["skipped"]
                thunk = self.construct(op)
                if thunk is None:
                    return ["skipped"]
                obj = thunk()
                del thunk
            how = self.hand_out(obj)
            if dst < len(S):
                S[dst] = obj
            del obj
            return [how]
        out = self.run_op(op)
        return out[:2] if out[0] == "raised" else out[:1]

    def probe_dropped(self):
        """C01 at the end of a history: an object that is still there although nothing reaches it (something inside
        the library holds on to it) is not live; the requests that would meet it -- a look-up of its name, its canonical
        form under another name -- are made in a fresh slot and judged by the statements of step().  Returns the
        requests made (they become part of the reported history)."""
        reach = self.reachable()
        zombies = [o for o in self.live() if id(o) not in reach and reg.FAIL[type(o)] == "none"]
        reach = None
        todo = []
        for z in zombies:
            c, k = reg.ZOO.index(type(z)), reg.KIND[type(z)]
            if k == "D":
                if z.name.strip("*") and not z.name.endswith("**"):
                    todo.append(["dom", None, c, z.name, z.length + 1, None, None])
            elif k == "C":
                todo.append(["cplx", None, c, None, None, z.name, None])
            elif k == "S":
                todo.append(["strand", None, c, None, z.name, None])
            elif k == "M":
                todo.append(["macro", None, c, None, z.name])
            else:
                todo.append(["rxn", None, c, None, None, z.name])
        z = None
        del zombies
        done = []
        for op in todo[:6]:
            self.slots.append(None)
            op[1] = len(self.slots) - 1
            done.append(op)
            self.step(op)
            if self.fail:
                break
        return done

    def finale(self):
        """drop everything: every object must be released and every name redefinable"""
        seen = []
        for r in self.handed:
            o = r()
            if o is not None and isinstance(o, DomainS):
                seen.append((type(o), o.name, o.length))
            del o
        for k in range(len(self.slots)):
            self.slots[k] = None
        for r in self.handed:
            o = r()
            if o is not None:
                self.bad("C05", f"{o!r} is still alive after every reference was dropped")
            del o
        for cls in reg.ZOO:
            if len(cls._instanceNames) or len(cls._instanceCanon):
                self.bad("C05", f"registry of {cls.__name__} is not empty after every reference was dropped")
        for cls, name, length in seen:
            if reg.FAIL[cls] != "none" or not name or name.strip("*") == "":
                continue
            try:
                d = cls(name, length + 1)
                del d
            except SingletonError:
                self.bad("C05", f"{cls.__name__}({name!r}, {length + 1}) is refused after every reference was dropped")
            except Exception:
                pass


def run_one(k, h, payload, failures):
    steps = 0
    reg.reset()
    o = Oracle(h["nslots"], payload["checks"], payload.get("deep", False))
    try:
        probes = []
        for j, op in enumerate(h["ops"]):
            o.step(op)
            if reg.READS[0]:
                reg.read_accessors(o.slots)
            steps += 1
            if o.fail:
                break
        else:
            j = len(h["ops"]) - 1
            if "C01" in o.checks and o.deep:
                probes = o.probe_dropped()
            if "C05" in o.checks and not o.fail:
                o.finale()
        for check, what in o.fail[:3]:
            failures.append({"history": k, "step": j + len(probes), "ops": h["ops"][:j + 1] + probes, "nslots": len(o.slots),
                             "check": check, "what": what})
            if h.get("zoo"):
                failures[-1]["zoo"] = h["zoo"]
    except Exception as e:          # the oracle itself must not hide a history
        failures.append({"history": k, "step": -1, "ops": h["ops"], "nslots": h["nslots"], "check": "oracle",
                         "what": f"oracle crashed: {type(e).__name__}: {e}"})
        if h.get("zoo"):
            failures[-1]["zoo"] = h["zoo"]
    o = None
    reg.reset()
    return steps


def run(payload):
    reg.build_zoo()
    failures, steps = [], 0
    gc.collect()
    gc.disable()
    for k, h in enumerate(payload["histories"]):
        # "zoo": variant of the class zoo (impl/registry.py build_variant: classes that no naming attribute tells apart)
        with reg.zoo_variant(h.get("zoo", 0)):
            steps += run_one(k, h, payload, failures)
        if k % 256 == 255:
            gc.collect()
    return {"failures": failures, "steps": steps}


if __name__ == "__main__":
    print(json.dumps(run(json.load(sys.stdin))))
