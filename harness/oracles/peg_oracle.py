"""Direct statement of C13 / C19 on the implementation (property oracle).
stdin: {"cases": [case]}   stdout: {"failures": [...], "checked": {kind: n}}

case kinds
  roundtrip  {"text", "tree"}            parse(text) == [tree]
  document   {"prologue", "texts"}       parse(prologue + ''.join(texts)) == concatenation of parse(t)
  file       {"text"}                    parse_file(path / open file) == parse_string(content)
  history    {"text", "before"}          parse(text) in a fresh process == parse(text) after the calls `before`
  reject     {"text"}                    parse(text) raises ParseException
  reuse      {"texts", "edit", "via"}    every text is parsed and the returned token tree is destroyed in place by the caller
                                         (edit: pop-keyword / append / leaves / clear-top / clear-deep / reverse / all); parsing
                                         the same texts again gives the same token trees, made of new objects; no result contains
                                         one list object twice.  via = "file": the texts are written, one after the other, to the
                                         SAME path and read with parse_file (a result must not be remembered under the file name);
                                         via = "path": every distinct text has its OWN file, written once and left untouched, and is
                                         read by name each time (an unchanged file parsed again is still a new parse: nothing handed
                                         to a caller may be kept and handed out again, whole or in part)
  handles    {"texts", "mode"}           every text is written to its own file and the files are read one after the other through open
                                         handles in one process; each call returns the parse of ITS file's content (nothing may be
                                         remembered per handle object: a released handle's address is given to a later handle).
                                         mode: with (for p: with open(p) as fh) / drop (parse_file(open(p))) / keep (handles stay alive)
                                         / stringio (io.StringIO objects, dropped) / rewind (ONE handle, re-written and rewound) /
                                         mixed (paths, dropped handles and StringIO objects alternate)
The dot-bracket of a strand-notation complex is compared up to blanks."""
import copy, inspect, json, os, subprocess, sys, tempfile, warnings
warnings.simplefilter("ignore")

EDITS = ["pop-keyword", "append", "leaves", "clear-top", "clear-deep", "reverse", "all"]


def lists_of(x, acc):
    """every list object of a token tree, parents before children"""
    if isinstance(x, list):
        acc.append(x)
        for y in x:
            lists_of(y, acc)
    return acc


def scribble(res, edit):
    """what a consumer may do to a token tree it was given: the tree is its own"""
    if not isinstance(res, list):
        return
    nodes = lists_of(res, [])
    if edit in ("leaves", "all"):
        for n in nodes:
            for k, y in enumerate(n):
                if isinstance(y, str):
                    n[k] = y + "?"
    if edit in ("append", "all"):
        for n in nodes:
            n.append("99")
    if edit in ("pop-keyword", "all"):          # dispatching on the keyword by consuming it
        for stmt in res:
            if isinstance(stmt, list) and stmt:
                stmt.pop(0)
    if edit == "reverse":
        for n in nodes:
            n.reverse()
    if edit == "clear-deep":
        for n in reversed(nodes):
            del n[:]
    if edit == "clear-top":
        del res[:]


def norm_tree(t):
    if isinstance(t, list) and len(t) == 4 and t[0] == "strand-complex" and isinstance(t[3], str):
        return t[:3] + [t[3].replace(" ", "")]
    return t


def norm(res):
    return [norm_tree(t) for t in res] if isinstance(res, list) else res

HANDLES_PROGRAM = """import io, os, tempfile
from dsdobjects.dsdparser import parse_%(dialect)s_string as ps, parse_%(dialect)s_file as pf
texts, mode = %(texts)r, %(mode)r
def run(f, *a):
    try: return f(*a)
    except Exception as e: return type(e).__name__
tmp = tempfile.mkdtemp(); paths = []
for j, t in enumerate(texts):
    paths.append(os.path.join(tmp, 'f%%d.txt' %% j)); open(paths[-1], 'wb').write(t.encode('utf-8'))
released, spare = set(), []
def reopen(p):
    # a handle at the address of one that was read and released (what CPython does sooner or later in a batch loop)
    for _ in range(48):
        fh = open(p, encoding='utf-8')
        if id(fh) in released or not released: break
        fh.close(); spare.append(fh)    # stays allocated: the next one gets another address
    else: fh = open(p, encoding='utf-8')
    released.add(id(fh)); return fh
def burst(p):
    # the first file is read through several handles that are open at the same time and released together
    hs = [open(p, encoding='utf-8') for _ in range(16)]
    for fh in hs: run(pf, fh); released.add(id(fh)); fh.close()
if mode in ('with', 'drop', 'mixed'): burst(paths[0])
def via_with(j):
    with reopen(paths[j]) as fh: return run(pf, fh)
def via_rewind(j, fh=open(os.path.join(tmp, 'one.txt'), 'w+', encoding='utf-8', newline='')):
    fh.seek(0); fh.truncate(); fh.write(texts[j]); fh.flush(); fh.seek(0); return run(pf, fh)
kept = []
def via_keep(j):
    kept.append(open(paths[j], encoding='utf-8')); return run(pf, kept[-1])
how = {'with': via_with, 'drop': lambda j: run(pf, reopen(paths[j])), 'keep': via_keep,
       'stringio': lambda j: run(pf, io.StringIO(texts[j])), 'rewind': via_rewind, 'path': lambda j: run(pf, paths[j])}
for j, t in enumerate(texts):
    m = ['path', 'drop', 'stringio', 'with'][j %% 4] if mode == 'mixed' else mode
    want = run(ps, t if m in ('stringio', 'rewind') else open(paths[j], encoding='utf-8').read())
    got = how[m](j)
    print(got == want, m, repr(t), got, 'content parses as', want)
"""


def handles_case(c, dialect, parse_string, parse_file, run):
    """files read one after the other through open handles parse like their content"""
    import io, shutil
    texts, mode = c["texts"], c.get("mode", "with")
    tmp = tempfile.mkdtemp(prefix="c13_handles_")
    try:
        paths, content = [], []
        for j, t in enumerate(texts):
            paths.append(os.path.join(tmp, "f%d.txt" % j))
            with open(paths[-1], "wb") as f:
                f.write(t.encode("utf-8"))
            with open(paths[-1], encoding="utf-8") as f:
                content.append(f.read())
        kept, released, spare = [], set(), []

        def reopen(p):
            """a handle at the address of one that was read and released (what CPython does sooner or later in a batch loop)"""
            for _ in range(48):
                fh = open(p, encoding="utf-8")
                if id(fh) in released or not released:
                    break
                fh.close()
                spare.append(fh)        # stays allocated: the next one gets another address
            else:
                fh = open(p, encoding="utf-8")
            released.add(id(fh))
            return fh

        def burst(p):
            """the first file is read through several handles that are open at the same time and released together"""
            hs = [open(p, encoding="utf-8") for _ in range(16)]
            for fh in hs:
                run(parse_file, fh)
                released.add(id(fh))
                fh.close()

        def via_with(j):
            with reopen(paths[j]) as fh:
                return run(parse_file, fh)

        def via_keep(j):
            kept.append(open(paths[j], encoding="utf-8"))
            return run(parse_file, kept[-1])

        one = open(os.path.join(tmp, "one.txt"), "w+", encoding="utf-8", newline="")
        kept.append(one)

        def via_rewind(j):
            one.seek(0)
            one.truncate()
            one.write(texts[j])
            one.flush()
            one.seek(0)
            return run(parse_file, one)
        how = {"with": via_with, "drop": lambda j: run(parse_file, reopen(paths[j])), "keep": via_keep,
               "stringio": lambda j: run(parse_file, io.StringIO(texts[j])), "rewind": via_rewind,
               "path": lambda j: run(parse_file, paths[j])}
        if mode in ("with", "drop", "mixed"):
            burst(paths[0])
        for j, t in enumerate(texts):
            m = ["path", "drop", "stringio", "with"][j % 4] if mode == "mixed" else mode
            want = run(parse_string, t if m in ("stringio", "rewind") else content[j])
            got = how[m](j)
            if got != want:
                return [{"kind": "handles", "text": t, "texts": texts, "mode": mode, "expected": want, "observed": got,
                         "what": f"file {j + 1} of {len(texts)} read one after the other through open handles ({m}) does not parse like "
                                 "its content (the answer belongs to an earlier handle)",
                         "snippet": HANDLES_PROGRAM % {"dialect": dialect, "texts": texts, "mode": mode}}]
        return []
    finally:
        for fh in kept:
            fh.close()
        shutil.rmtree(tmp, ignore_errors=True)


def main(dialect):
    import dsdobjects.dsdparser as dp
    from pyparsing import ParseException
    P = {"pil": (dp.parse_pil_string, dp.parse_pil_file), "seesaw": (dp.parse_seesaw_string, dp.parse_seesaw_file)}
    parse_string, parse_file = P[dialect]

    def run(f, *a):
        try:
            return norm(f(*a))
        except ParseException:
            return "<ParseException>"
        except Exception as e:          # noqa
            return f"<{type(e).__name__}>"

    def call_raw(f, *a):
        try:
            return f(*a)
        except ParseException:
            return "<ParseException>"
        except Exception as e:          # noqa
            return f"<{type(e).__name__}>"

    def reuse_snippet(c):
        name = "parse_%s_%s" % (dialect, "file" if c.get("via") in ("file", "path") else "string")
        body = ("def parse(t):\n    open('/tmp/c.txt', 'wb').write(t.encode('utf-8'))\n    return p('/tmp/c.txt')\n"
                if c.get("via") == "file" else
                "import os, tempfile\npaths = {}\ndef parse(t):\n    if t not in paths:      # written once, never touched again\n"
                "        fd, paths[t] = tempfile.mkstemp(suffix='.txt'); os.write(fd, t.encode('utf-8')); os.close(fd)\n"
                "    return p(paths[t])\n"
                if c.get("via") == "path" else "parse = p\n")
        return ("import copy\nfrom dsdobjects.dsdparser import %s as p\n" % name + inspect.getsource(lists_of) + inspect.getsource(scribble)
                + body + "texts, edit = %r, %r\n" % (c["texts"], c.get("edit", "all")) +
                "def run(t):\n    try: return parse(t)\n    except Exception as e: return type(e).__name__\n"
                "first, mine = [], []\nfor t in texts:\n    r = run(t); first.append(copy.deepcopy(r)); mine += lists_of(r, [])\n"
                "    scribble(r, edit)    # the caller's own tree\n"
                "for t, want in zip(texts, first):\n    r = run(t)\n"
                "    print('same tree:', r == want, ' new objects:', not any(x is y for x in lists_of(r, []) for y in mine), repr(t), r, 'first time:', want)\n")

    req = json.load(sys.stdin)
    fails, checked = [], {}
    for c in req["cases"]:
        k = c["kind"]
        checked[k] = checked.get(k, 0) + 1
        if k == "roundtrip":
            want, got = [norm_tree(c["tree"])], run(parse_string, c["text"])
            if got != want:
                fails.append({"kind": k, "text": c["text"], "tree": c["tree"], "expected": want, "observed": got,
                              "what": "parsing the rendered statement does not return its token tree"})
        elif k == "reject":
            got = run(parse_string, c["text"])
            if got != "<ParseException>":
                fails.append({"kind": k, "text": c["text"], "fault": c.get("fault"), "expected": "<ParseException>",
                              "observed": got, "what": f"malformed statement ({c.get('fault')}) is not rejected with a parse error"})
        elif k == "document":
            parts = [run(parse_string, t) for t in c["texts"]]
            whole = run(parse_string, c.get("prologue", "") + "".join(c["texts"]))
            want = "<ParseException>" if any(isinstance(p, str) for p in parts) else [t for p in parts for t in p]
            if isinstance(want, list) and whole != want:
                fails.append({"kind": k, "text": c.get("prologue", "") + "".join(c["texts"]), "texts": c["texts"],
                              "prologue": c.get("prologue", ""), "expected": want, "observed": whole,
                              "what": "parsing the document differs from concatenating the parses of its statements"})
        elif k == "file":
            fd, path = tempfile.mkstemp(prefix="c13_", suffix=".pil")
            try:
                with os.fdopen(fd, "wb") as f:
                    f.write(c["text"].encode("utf-8"))
                content = open(path, encoding="utf-8").read()
                want = run(parse_string, content)
                got = run(parse_file, path)
                with open(path, encoding="utf-8") as fh:
                    got2 = run(parse_file, fh)
                raw = run(parse_string, c["text"])
                lone_cr = "\r" in c["text"].replace("\r\n", "")
                if got != want or got2 != want or (not lone_cr and raw != want):
                    fails.append({"kind": k, "text": c["text"], "expected": want,
                                  "observed": {"parse_file(path)": got, "parse_file(file object)": got2, "parse_string(text)": raw},
                                  "what": "parsing a file differs from parsing its content"})
            finally:
                os.unlink(path)
        elif k == "history":
            code = ("import sys, json, warnings; warnings.simplefilter('ignore'); import dsdobjects.dsdparser as dp\n"
                    "from pyparsing import ParseException\n"
                    f"f = dp.parse_{dialect}_string\n"
                    "try: r = f(json.load(sys.stdin))\n"
                    "except ParseException: r = '<ParseException>'\n"
                    "json.dump(r, sys.stdout)\n")
            p = subprocess.run([sys.executable, "-c", code], input=json.dumps(c["text"]), stdout=subprocess.PIPE,
                               stderr=subprocess.PIPE, text=True)
            fresh = norm(json.loads(p.stdout)) if p.returncode == 0 else f"<crash {p.stderr[-200:]}>"
            for d, t in c["before"]:
                run(P[d][0], t)
            got = run(parse_string, c["text"])
            if got != fresh:
                fails.append({"kind": k, "text": c["text"], "before": c["before"], "expected": fresh, "observed": got,
                              "what": "the result depends on earlier parser calls in the process"})
        elif k == "reuse":
            texts, edit, via = c["texts"], c.get("edit", "all"), c.get("via", "string")
            path, own = None, {}
            if via == "file":
                fd, path = tempfile.mkstemp(prefix="c13_", suffix=".pil")
                os.close(fd)

            def parse(t):
                if via == "path":
                    if t not in own:
                        fd, own[t] = tempfile.mkstemp(prefix="c13_", suffix=".pil")
                        with os.fdopen(fd, "wb") as f:
                            f.write(t.encode("utf-8"))
                    return call_raw(parse_file, own[t])
                if path is None:
                    return call_raw(parse_string, t)
                with open(path, "wb") as f:
                    f.write(t.encode("utf-8"))
                return call_raw(parse_file, path)

            def fail(j, want, got, what):
                fails.append({"kind": k, "text": texts[j], "texts": texts, "edit": edit, "via": via, "expected": want, "observed": got,
                              "what": what, "snippet": reuse_snippet(c)})
            try:
                snaps, keep, bad = [], [], False
                for j, t in enumerate(texts):
                    r = parse(t)
                    ls = lists_of(r, [])
                    snaps.append(norm(copy.deepcopy(r)))
                    if len({id(x) for x in ls}) != len(ls):
                        fail(j, "a tree of distinct lists", snaps[j], "one list object occurs twice in a returned token tree "
                             "(changing one statement changes another)")
                        bad = True
                        break
                    keep.append(ls)                 # keeps every handed-out list alive: ids stay unique
                    scribble(r, edit)
                old = {id(x) for ls in keep for x in ls}
                for j, t in enumerate(texts):
                    if bad:
                        break
                    again = parse(t)
                    got = norm(copy.deepcopy(again))
                    if got != snaps[j]:
                        fail(j, snaps[j], got, "parsing the same text again, after the caller modified the token tree it was given "
                             f"({edit}), returns a different token tree")
                        bad = True
                    elif any(id(x) in old for x in lists_of(again, [])):
                        fail(j, "new objects", got, "a later call returns list objects that belong to an earlier result")
                        bad = True
            finally:
                if path is not None:
                    os.unlink(path)
                for q in own.values():
                    os.unlink(q)
        elif k == "handles":
            fails += handles_case(c, dialect, parse_string, parse_file, run)
    json.dump({"failures": fails, "checked": checked}, sys.stdout)
