"""Direct statement of C13 / C19 on the implementation (property oracle).
stdin: {"cases": [case]}   stdout: {"failures": [...], "checked": {kind: n}}

case kinds
  roundtrip  {"text", "tree"}            parse(text) == [tree]
  document   {"prologue", "texts"}       parse(prologue + ''.join(texts)) == concatenation of parse(t)
  file       {"text"}                    parse_file(path / open file) == parse_string(content)
  history    {"text", "before"}          parse(text) in a fresh process == parse(text) after the calls `before`
  reject     {"text"}                    parse(text) raises ParseException
The dot-bracket of a strand-notation complex is compared up to blanks."""
import json, os, subprocess, sys, tempfile, warnings
warnings.simplefilter("ignore")


def norm_tree(t):
    if isinstance(t, list) and len(t) == 4 and t[0] == "strand-complex" and isinstance(t[3], str):
        return t[:3] + [t[3].replace(" ", "")]
    return t


def norm(res):
    return [norm_tree(t) for t in res] if isinstance(res, list) else res


def main(dialect):
    import dsdobjects.dsdparser as dp
    from pyparsing import ParseException
    P = {"pil": (dp.parse_pil_string, dp.parse_pil_file), "seesaw": (dp.parse_seesaw_string, dp.parse_seesaw_file)}
    parse_string, parse_file = P[dialect]

    def run(f, *a):
        try:
            return norm(f(*a))
        except ParseException:
            return "<ParseException>"
        except Exception as e:          # noqa
            return f"<{type(e).__name__}>"

    req = json.load(sys.stdin)
    fails, checked = [], {}
    for c in req["cases"]:
        k = c["kind"]
        checked[k] = checked.get(k, 0) + 1
        if k == "roundtrip":
            want, got = [norm_tree(c["tree"])], run(parse_string, c["text"])
            if got != want:
                fails.append({"kind": k, "text": c["text"], "tree": c["tree"], "expected": want, "observed": got,
                              "what": "parsing the rendered statement does not return its token tree"})
        elif k == "reject":
            got = run(parse_string, c["text"])
            if got != "<ParseException>":
                fails.append({"kind": k, "text": c["text"], "fault": c.get("fault"), "expected": "<ParseException>",
                              "observed": got, "what": f"malformed statement ({c.get('fault')}) is not rejected with a parse error"})
        elif k == "document":
            parts = [run(parse_string, t) for t in c["texts"]]
            whole = run(parse_string, c.get("prologue", "") + "".join(c["texts"]))
            want = "<ParseException>" if any(isinstance(p, str) for p in parts) else [t for p in parts for t in p]
            if isinstance(want, list) and whole != want:
                fails.append({"kind": k, "text": c.get("prologue", "") + "".join(c["texts"]), "texts": c["texts"],
                              "prologue": c.get("prologue", ""), "expected": want, "observed": whole,
                              "what": "parsing the document differs from concatenating the parses of its statements"})
        elif k == "file":
            fd, path = tempfile.mkstemp(prefix="c13_", suffix=".pil")
            try:
                with os.fdopen(fd, "wb") as f:
                    f.write(c["text"].encode("utf-8"))
                content = open(path, encoding="utf-8").read()
                want = run(parse_string, content)
                got = run(parse_file, path)
                with open(path, encoding="utf-8") as fh:
                    got2 = run(parse_file, fh)
                raw = run(parse_string, c["text"])
                lone_cr = "\r" in c["text"].replace("\r\n", "")
                if got != want or got2 != want or (not lone_cr and raw != want):
                    fails.append({"kind": k, "text": c["text"], "expected": want,
                                  "observed": {"parse_file(path)": got, "parse_file(file object)": got2, "parse_string(text)": raw},
                                  "what": "parsing a file differs from parsing its content"})
            finally:
                os.unlink(path)
        elif k == "history":
            code = ("import sys, json, warnings; warnings.simplefilter('ignore'); import dsdobjects.dsdparser as dp\n"
                    "from pyparsing import ParseException\n"
                    f"f = dp.parse_{dialect}_string\n"
                    "try: r = f(json.load(sys.stdin))\n"
                    "except ParseException: r = '<ParseException>'\n"
                    "json.dump(r, sys.stdout)\n")
            p = subprocess.run([sys.executable, "-c", code], input=json.dumps(c["text"]), stdout=subprocess.PIPE,
                               stderr=subprocess.PIPE, text=True)
            fresh = norm(json.loads(p.stdout)) if p.returncode == 0 else f"<crash {p.stderr[-200:]}>"
            for d, t in c["before"]:
                run(P[d][0], t)
            got = run(parse_string, c["text"])
            if got != fresh:
                fails.append({"kind": k, "text": c["text"], "before": c["before"], "expected": fresh, "observed": got,
                              "what": "the result depends on earlier parser calls in the process"})
    json.dump({"failures": fails, "checked": checked}, sys.stdout)
