"""Direct statement of C07 on the implementation (property oracle; used only to
look for a failing input once a proof or the correspondence has broken).

stdin : {"cases": [{"seq": [names and '+'], "sst": "dot-bracket"}]}
stdout: {"failures": [{"seq":..., "sst":..., "what":...}], "checked": n}

Everything is compared against an independent quadratic bracket matcher; the
library's own conversion functions are used only where the property speaks of
them (the generators' outputs)."""
import sys, json, copy, gc, warnings, logging
warnings.simplefilter("ignore")
logging.disable(logging.CRITICAL)
from dsdobjects import base_classes as bc
from dsdobjects.singleton import clear_singletons
from dsdobjects.complex_utils import (rotate_complex_once, rotate_complex_db, rotate_complex_pt,
                                      make_pair_table, make_strand_table)

CLASSES = [getattr(bc, n) for n in ("DomainS", "ComplexS", "StrandS", "MacrostateS", "ReactionS") if hasattr(bc, n)]


def reset():
    for c in CLASSES:
        clear_singletons(c)
    gc.collect()


def matcher(s):
    """quadratic independent matcher on a flat string; None when ill-formed"""
    partner = {}
    for j, c in enumerate(s):
        if c == ")":
            i = j - 1
            while i >= 0 and not (s[i] == "(" and i not in partner):
                i -= 1
            if i < 0:
                return None
            partner[i] = j
            partner[j] = i
        elif c not in "(.+":
            return None
    if any(c == "(" and i not in partner for i, c in enumerate(s)):
        return None
    return partner


def locs(s):
    """flat index -> (strand, position)"""
    out, si, di = {}, 0, 0
    for k, c in enumerate(s):
        if c == "+":
            si, di = si + 1, 0
        else:
            out[k] = (si, di)
            di += 1
    return out


def pair_set(s):
    """set of ordered pairs of loci, None when ill-formed"""
    p = matcher(s)
    if p is None:
        return None
    l = locs(s)
    return {(l[i], l[j]) for i, j in p.items()}


def table(s):
    """the pair table the brackets prescribe"""
    p, l = matcher(s), locs(s)
    rows = [[] for _ in range(s.count("+") + 1)]
    for k, c in enumerate(s):
        if c != "+":
            rows[l[k][0]].append(l[p[k]] if k in p else None)
    return rows


def strands(x):
    out, cur = [], []
    for e in x:
        if e == "+":
            out.append(cur); cur = []
        else:
            cur.append(e)
    out.append(cur)
    return out


def names(x):
    return [e if isinstance(e, str) else e.name for e in x]


def dlen(n):
    b = n[:-1] if n.endswith("*") else n
    return 1 + (sum(ord(c) for c in b) % 7)


def check(seq, sst):
    n = sst.count("+") + 1
    s0 = list(sst)
    q0 = list(seq)
    # --- the fast rotation -------------------------------------------------
    a, b = list(q0), list(s0)
    r = rotate_complex_once(a, b)
    if (a, b) != (q0, s0):
        return "rotate_complex_once modified its arguments"
    rseq, rsst = list(r[0]), "".join(r[1])
    if n > 1:
        if matcher(rsst) is None:
            return f"one rotation gives the ill-formed structure {rsst!r}"
        st = strands(q0)
        if strands(rseq) != st[1:] + st[:1]:
            return f"strands after one rotation are {strands(rseq)}, expected {st[1:] + st[:1]}"
        if [len(x) for x in rsst.split("+")] != [len(x) for x in strands(rseq)]:
            return "rotated structure is not aligned with the rotated sequence"
    else:
        if (rseq, rsst) != (q0, sst):
            return "rotation of a single strand changed it"
    # --- the object and its locus mapping ------------------------------------
    reset()
    doms = {}
    for x in q0:
        if x != "+" and x not in doms:
            doms[x] = bc.DomainS(x, length=dlen(x))
    oseq, osst = [x if x == "+" else doms[x] for x in q0], list(s0)
    cx = bc.ComplexS(oseq, osst)
    if cx.size != n:
        return f"size is {cx.size}, the structure has {n} strands"
    want = pair_set(sst)
    got = pair_set(rsst)
    mapped = {(tuple(cx.rotate_pairtable_loc(x, 1)), tuple(cx.rotate_pairtable_loc(y, 1))) for x, y in want}
    if got != mapped:
        return (f"base pairs after one rotation {sorted(got)} differ from the original ones re-indexed by "
                f"rotate_pairtable_loc {sorted(mapped)}")
    for si in range(n):
        if tuple(cx.rotate_pairtable_loc((si, 3), 1)) != ((si - 1) % n, 3):
            return f"rotate_pairtable_loc(({si}, 3), 1) = {cx.rotate_pairtable_loc((si, 3), 1)}"
        if tuple(cx.rotate_pairtable_loc((si, 0), n)) != (si, 0):
            return f"rotate_pairtable_loc by n turns is not the identity on strand {si}"
    # --- n rotations restore the original ------------------------------------
    x, y = list(q0), list(s0)
    chain = [(list(x), "".join(y))]
    for _ in range(n):
        x, y = rotate_complex_once(x, y)
        chain.append((list(x), "".join(y)))
    if chain[n] != chain[0]:
        return f"{n} rotations give {chain[n]} instead of the original"
    # --- generators, no explicit count ---------------------------------------
    obj = [(names(u), "".join(v)) for u, v in cx.rotate()]
    if names(oseq) != q0 or osst != s0 or names(cx._sequence) != q0 or list(cx._structure) != s0:
        return "rotate() modified the stored representation"
    if obj != chain[:n]:
        return f"rotate() yields {obj}, expected the {n} rotations {chain[:n]}"
    objpt = [([names(s) for s in st], pt) for st, pt in cx.rotate_pt()]
    if names(oseq) != q0 or osst != s0 or names(cx._sequence) != q0 or list(cx._structure) != s0:
        return "rotate_pt() modified the stored representation"
    wantpt = [(strands(u), table(v)) for u, v in chain[:n]]
    if [(a, [list(map(lambda e: None if e is None else tuple(e), r)) for r in b]) for a, b in objpt] != wantpt:
        return f"rotate_pt() yields {objpt}, expected {wantpt}"
    a, b = list(q0), list(s0)
    db = [(list(u), "".join(v)) for u, v in rotate_complex_db(a, b)]
    if (a, b) != (q0, s0):
        return "rotate_complex_db modified its arguments"
    if len(db) != n:
        return f"rotate_complex_db yields {len(db)} elements for {n} strands"
    for k in range(n):
        if db[k] != chain[(n - k) % n]:
            return (f"rotate_complex_db element {k} is {db[k]}, rotate() element {(n - k) % n} is "
                    f"{chain[(n - k) % n]}")
    # --- explicit turn counts (C07_turns_*): t elements, the k-th carrying rcount(t, n, k) steps
    for t in (-1, 0, 1, n - 1, n, n + 1, n + 2, 2 * n + 1):
        got = [(list(u), "".join(v)) for u, v in rotate_complex_db(list(q0), list(s0), turns=t)]
        steps = [k if (n <= t and t - n <= k) else k + 1 for k in range(max(t, 0))]
        exp = [chain[(n - j % n) % n] for j in steps]
        if got != exp:
            return f"rotate_complex_db(turns={t}) yields {got}, expected {exp}"
        got = [(names(u), "".join(v)) for u, v in cx.rotate(t)]
        exp = [chain[k % n] for k in range(max(t, 1))]
        if got != exp:
            return f"rotate(turns={t}) yields {got}, expected {exp}"
    stab, ptab = strands(q0), table(sst)
    st0, pt0 = copy.deepcopy(stab), copy.deepcopy(ptab)
    pts = [(u, v) for u, v in rotate_complex_pt(stab, ptab)]
    if (stab, ptab) != (st0, pt0):
        return "rotate_complex_pt modified its arguments"
    if len(pts) != n:
        return f"rotate_complex_pt yields {len(pts)} elements for {n} strands"
    for k in range(n):
        u, v = chain[(n - k) % n]
        if (pts[k][0], [list(r) for r in pts[k][1]]) != (strands(u), table(v)):
            return f"rotate_complex_pt element {k} is {pts[k]}, expected the tables of {(u, v)}"
    del cx
    return None


def main():
    req = json.load(sys.stdin)
    fails, n = [], 0
    for c in req["cases"]:
        seq, sst = c["seq"], c["sst"]
        if matcher(sst) is None or not all(sst.split("+")) or len(seq) != len(sst) \
           or any((a == "+") != (b == "+") for a, b in zip(seq, sst)):
            continue                      # outside the quantifier of C07
        n += 1
        try:
            r = check(seq, sst)
        except Exception as e:            # any exception on a well-formed complex is a failure
            r = f"raised {type(e).__name__}: {e}"
        if r is not None:
            fails.append({"seq": seq, "sst": sst, "what": r})
            if len(fails) >= req.get("max", 50):
                break
    reset()
    json.dump({"failures": fails, "checked": n}, sys.stdout)


main()
