"""Direct statement of C06 on the implementation (property oracle; used only to
look for a failing input once a proof or the correspondence has broken).
stdin: {"cases": [{"s": str, "brk": str}]}  stdout: {"failures": [...]}"""
import sys, json, warnings
warnings.simplefilter("ignore")
from dsdobjects.complex_utils import (make_pair_table, pair_table_to_dot_bracket, make_strand_table,
                                      strand_table_to_sequence, rotate_complex_once, SecondaryStructureError)


def matcher(s, brk):
    """quadratic-time independent bracket matcher: returns flat partner map or None"""
    n = len(s)
    partner = {}
    for j in range(n):
        if s[j] == ")":
            i = j - 1
            while i >= 0 and not (s[i] == "(" and i not in partner):
                i -= 1
            if i < 0:
                return None
            partner[i] = j
            partner[j] = i
        elif s[j] not in "(." + brk:
            return None
    if any(s[i] == "(" and i not in partner for i in range(n)):
        return None
    return partner


def check(s, brk):
    partner = matcher(s, brk)
    try:
        pt = make_pair_table(s, strand_break=brk)
    except SecondaryStructureError:
        return None if partner is None else "well-formed structure rejected"
    except Exception as e:
        return f"make_pair_table raised {type(e).__name__}"
    if partner is None:
        return "ill-formed structure accepted"
    # a result must be a fresh value: destroying it must not affect a later conversion
    import copy
    snap = copy.deepcopy(pt)
    for row in pt:
        row.clear(); row.append("?")
    pt.clear()
    pt = make_pair_table(s, strand_break=brk)
    if pt != snap:
        return "converting again after the first result was modified gives a different table (results share state)"
    # shape
    strands = s.split(brk)
    if [len(r) for r in pt] != [len(x) for x in strands]:
        return "table shape differs from the strands"
    flat, k = {}, 0
    for si, x in enumerate(strands):
        for di in range(len(x)):
            flat[k] = (si, di)
            k += 1
        k += 1
    for k, loc in flat.items():
        want = flat[partner[k]] if k in partner else None
        got = pt[loc[0]][loc[1]]
        if got != want:
            return f"entry {loc} is {got}, brackets say {want}"
    if all(strands):
        back = pair_table_to_dot_bracket(pt, strand_break=brk, join=True)
        if back != s:
            return f"round trip gives {back!r}"
    return None


def check_rotate(s):
    """ill-formed input to the fast rotation: a value or SecondaryStructureError only; and the imbalances the rotation
    can see must be reported.  The rotation looks at the strand it moves (everything before the first break) and at the
    remaining strands separately: a bracket opened on the moved strand may be closed later and a bracket closed on the
    remaining strands may have been opened on the moved one, but a ')' on the moved strand that no earlier '(' of that
    strand matches, and a '(' after the first break that no later ')' matches, have no partner anywhere in the structure."""
    seq = ["+" if c == "+" else "d" for c in s]
    visible = None
    if "+" in s:
        p = s.index("+")
        depth = 0
        for c in s[:p]:
            depth += (c == "(") - (c == ")")
            if depth < 0:
                visible = "the strand it moves closes a bracket that was never opened"
                break
        depth = 0
        for c in reversed(s[p + 1:]):
            depth += (c == ")") - (c == "(")
            if depth < 0 and visible is None:
                visible = "the remaining strands open a bracket that is never closed"
                break
    try:
        r = rotate_complex_once(seq, list(s))
    except SecondaryStructureError:
        return None
    except Exception as e:
        return f"rotate_complex_once raised {type(e).__name__}"
    if visible is not None:
        return (f"rotate_complex_once returned {''.join(r[1])!r} instead of raising SecondaryStructureError although {visible}")
    return None


def main():
    req = json.load(sys.stdin)
    # earlier calls with other parameters must not influence later ones (no state between calls)
    for brk in "+&":
        for ign in (".x", ".~x", ".)", "."):
            try:
                make_pair_table("(x.%s.x)" % brk, strand_break=brk, ignore=set(ign))
            except SecondaryStructureError:
                pass
    fails = []
    for c in req["cases"]:
        s, brk = c["s"], c.get("brk", "+")
        r = check(s, brk)
        if r is None and brk == "+":
            r = check_rotate(s)
        if r is not None:
            fails.append({"s": s, "brk": brk, "what": r})
    json.dump({"failures": fails}, sys.stdout)

main()
