"""C05, "no loss while referenced", across (re)configurations of the PIL reader -- direct statement on the implementation.
A session is a list of steps
    ["set", {slot: class index}]     set_io_objects(**those)   (index 0 = the base class passed explicitly)
    ["clear"]                        clear_io_objects()
    ["read", text, hold]             read_pil(text) with whatever is configured (errors are caught); the result is held or not
    ["make", dk, ck, name, n, cname] d = DCLS[dk](name, n); CCLS[ck]([d, '+', ~d], list('(+)'), name=cname), both held
    ["drop", i]                      the i-th held thing is dropped (gc.collect() follows)
After EVERY step, every object the user still holds (results of reads, objects built directly, and what they contain) is
still THE singleton of its name and of its canonical form in its own class: look-ups by name and by description return the
very object, and a request for the same name with other parameters is refused.  At the end everything is dropped: after one
gc pass every registry is empty.
stdin: {"sessions": [[step, ...], ...]}   stdout: {"results": [null | {"step": k, "what": str, "snippet": str}, ...]}"""
import sys, json, gc, warnings, logging
warnings.simplefilter("ignore")
logging.disable(logging.CRITICAL)
from dsdobjects import objectio, base_classes as bc
from dsdobjects.singleton import clear_singletons, SingletonError

class D1(bc.DomainS): pass
class D2(D1): pass
class S1(bc.StrandS): pass
class C1(bc.ComplexS): pass
class C2(bc.ComplexS): pass
class M1(bc.MacrostateS): pass
class R1(bc.ReactionS): pass
CLS = {"D": [bc.DomainS, D1, D2], "S": [bc.StrandS, S1], "C": [bc.ComplexS, C1, C2], "M": [bc.MacrostateS, M1],
       "R": [bc.ReactionS, R1]}
ALL = [c for v in CLS.values() for c in v]
HEADER = ["import gc", "from dsdobjects import SingletonError",
          "from dsdobjects.base_classes import DomainS, StrandS, ComplexS, MacrostateS, ReactionS",
          "from dsdobjects.objectio import read_pil, set_io_objects, clear_io_objects",
          "class D1(DomainS): pass", "class D2(D1): pass", "class S1(StrandS): pass", "class C1(ComplexS): pass",
          "class C2(ComplexS): pass", "class M1(MacrostateS): pass", "class R1(ReactionS): pass", "held = {}"]


def fresh():
    objectio.clear_io_objects()
    for c in ALL:
        clear_singletons(c)
        if "ID" in c.__dict__:
            c.ID = 1
    gc.collect()


def objects_of(thing):
    """[(expression relative to the held thing, object)]"""
    if isinstance(thing, dict):
        out = [(f"['{f}'][{n!r}]", o) for f in ("domains", "strands", "complexes", "macrostates") for n, o in thing[f].items()]
        out += [(f" (the reaction {r.name!r})", r) for f in ("det_reactions", "con_reactions") for r in thing[f]]
        return out
    return [(f"[{i}]", o) for i, o in enumerate(thing)]


def src_seq(o, own):
    return "[" + ", ".join("'+'" if x == "+" else f"{own}({str(x)!r})" for x in o.sequence) + "]"


def check_one(o):
    """-> None | (text, source line that fails); the source line uses `o`"""
    cls, cn = type(o), type(o).__name__
    try:
        if isinstance(o, bc.DomainS):
            if cls(o.name) is not o:
                return f"{cn}({o.name!r}) is another object", f"assert type(o)({o.name!r}) is o"
            if cls(o.name, o.length) is not o:
                return f"{cn}({o.name!r}, {o.length}) is another object", f"assert type(o)({o.name!r}, {o.length}) is o"
            try:
                other = cls(o.name, o.length + 1)
            except SingletonError:
                return None
            return (f"two live domains of class {cn} named {o.name}: lengths {o.length} and {other.length}",
                    f"other = type(o)({o.name!r}, {o.length + 1})   # must raise SingletonError while o is alive")
        if isinstance(o, bc.StrandS):
            if cls(None, name=o.name) is not o:
                return f"{cn}(None, name={o.name!r}) is another object", f"assert type(o)(None, name={o.name!r}) is o"
            if cls(list(o.sequence), name=o.name) is not o:
                return f"{cn}(sequence, name={o.name!r}) is another object", f"assert type(o)(list(o.sequence), name={o.name!r}) is o"
            return None
        if isinstance(o, bc.ComplexS):
            if cls(None, None, o.name) is not o:
                return f"{cn}(None, None, {o.name!r}) is another object", f"assert type(o)(None, None, {o.name!r}) is o"
            if cls(list(o.sequence), list(o.structure), name=o.name) is not o:
                return (f"{cn}(sequence, structure, name={o.name!r}) is another object",
                        f"assert type(o)(list(o.sequence), list(o.structure), name={o.name!r}) is o")
            d = next(x for x in o.sequence if x != "+")
            try:
                other = cls(list(o.sequence) + ["+", d], list(o.structure) + ["+", "."], name=o.name)
            except SingletonError:
                return None
            return (f"two live complexes of class {cn} named {o.name}: {o.kernel_string} and {other.kernel_string}",
                    f"other = type(o)(list(o.sequence) + ['+', o.get_domain((0, 0))], list(o.structure) + ['+', '.'], name={o.name!r})"
                    "   # must raise SingletonError while o is alive")
        if isinstance(o, bc.MacrostateS):
            if cls(None, o.name) is not o:
                return f"{cn}(None, {o.name!r}) is another object", f"assert type(o)(None, {o.name!r}) is o"
            if cls(list(o.complexes), o.name) is not o:
                return f"{cn}(complexes, {o.name!r}) is another object", f"assert type(o)(list(o.complexes), {o.name!r}) is o"
            return None
        if isinstance(o, bc.ReactionS):
            if cls(list(o.reactants), list(o.products), o.rtype) is not o:
                return (f"{cn}(reactants, products, {o.rtype!r}) is another object",
                        f"assert type(o)(list(o.reactants), list(o.products), {o.rtype!r}) is o")
            return None
    except SingletonError as e:
        return (f"the held {cn} {o.name!r} cannot be looked up any more: SingletonError: {e}",
                f"type(o)({o.name!r})" if isinstance(o, bc.DomainS) else
                f"type(o)(None, name={o.name!r})" if isinstance(o, bc.StrandS) else
                f"type(o)(None, None, {o.name!r})" if isinstance(o, bc.ComplexS) else
                f"type(o)(None, {o.name!r})" if isinstance(o, bc.MacrostateS) else
                f"type(o)(list(o.reactants), list(o.products), {o.rtype!r})")
    return None


def check_held(held):
    for k, thing in held.items():
        for expr, o in objects_of(thing):
            r = check_one(o)
            if r is not None:
                if expr.startswith("["):
                    get = f"o = held[{k}]{expr}"
                else:
                    get = (f"o = next(r for r in held[{k}]['det_reactions'] | held[{k}]['con_reactions'] if r.name == {o.name!r})")
                return r[0], [get, r[1]]
    return None


def run_session(steps):
    fresh()
    held, src, nheld = {}, list(HEADER), 0
    try:
        for k, st in enumerate(steps):
            if st[0] == "set":
                kw = {s: CLS[s][i] for s, i in st[1].items()}
                src.append("set_io_objects(" + ", ".join(f"{s} = {c.__name__}" for s, c in kw.items()) + ")")
                objectio.set_io_objects(**kw)
            elif st[0] == "clear":
                src.append("clear_io_objects()")
                objectio.clear_io_objects()
            elif st[0] == "read":
                if objectio.Domain is None:
                    continue
                tgt = f"held[{nheld}] = " if st[2] else ""
                src.append(f"try: {tgt}read_pil({st[1]!r})\nexcept SingletonError: pass   # (a name of a held object declared differently)")
                try:
                    out = objectio.read_pil(st[1])
                    if st[2]:
                        held[nheld] = out
                    del out
                except SingletonError:
                    pass
                nheld += 1
            elif st[0] == "make":
                _, dk, ck, name, n, cname = st
                Dc, Cc = CLS["D"][dk], CLS["C"][ck]
                src.append(f"try:\n    d = {Dc.__name__}({name!r}, {n}); held[{nheld}] = [d, {Cc.__name__}([d, '+', ~d], list('(+)'), name = {cname!r})]; del d\n"
                           "except SingletonError: pass")
                try:
                    d = Dc(name, n)
                    held[nheld] = [d, Cc([d, "+", ~d], list("(+)"), name=cname)]
                except SingletonError:
                    pass
                d = None
                nheld += 1
            elif st[0] == "drop":
                ks = sorted(held)
                if not ks:
                    continue
                i = ks[st[1] % len(ks)]
                src.append(f"del held[{i}]; gc.collect()")
                del held[i]
                gc.collect()
            bad = check_held(held)
            if bad is not None:
                return {"step": k, "what": f"after step {k} ({st[0]}): {bad[0]}", "snippet": "\n".join(src + bad[1])}
        src.append("held.clear(); clear_io_objects(); gc.collect()")
        held.clear()
        objectio.clear_io_objects()
        gc.collect()
        left = {c.__name__: sorted(c._instanceNames.keys()) for c in ALL if len(c._instanceNames) or len(c._instanceCanon)}
        if left:
            return {"step": len(steps), "what": f"everything was dropped, one gc pass later the registries still hold {left}",
                    "snippet": "\n".join(src + ["print({c.__name__: list(c._instanceNames) for c in (DomainS, D1, D2, StrandS, S1, ComplexS, C1, C2, "
                                                "MacrostateS, M1, ReactionS, R1)})   # must all be empty"])}
        return None
    except Exception as e:
        return {"step": -1, "what": f"the session raised {type(e).__name__}: {e}", "snippet": "\n".join(src)}
    finally:
        held.clear()
        fresh()


def main():
    req = json.load(sys.stdin)
    gc.collect()
    gc.freeze()          # what the imports left is not garbage: the many gc passes of the sessions need not traverse it
    json.dump({"results": [run_session(s) for s in req["sessions"]]}, sys.stdout)


main()
