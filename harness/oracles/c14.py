"""Direct statement of C14 on the implementation (witness search only).

A case: {"text": document, "stmts": [[tag, text], ...] (optional: the statements one by one, in document
order), "expected": gen_pil.expected(S) (optional), "ignore": [...] (optional)}.

For a consistent generated system: read_pil(text) returns a dictionary that equals `expected` field by
field (domains with complements, lengths, sequences, reverse Watson-Crick complement sequences; strand
composition; complex sequence / structure / concentration triple; macrostate members; reaction members,
type, rate constant, units, condensed vs detailed); objects referenced by name are the identical
singletons; statement kinds in `ignore` are skipped (= reading the document without them); every line read
on its own yields the same object as inside the document; read_pil(path, is_file=True) equals
read_pil(text).  "released_before": [documents] (optional): in ONE session (no set_io_objects() in between) these
documents are read one after the other, each result dropped and collected (failures ignored), and then `text`: the
dictionary still equals `expected` - a name means what this document declares, whatever a released system called so."""
import sys, os, json, gc, tempfile, warnings, logging
warnings.simplefilter("ignore")
logging.disable(logging.CRITICAL)
from dsdobjects import objectio, base_classes as bc
from dsdobjects.singleton import clear_singletons

CLASSES = (bc.DomainS, bc.StrandS, bc.ComplexS, bc.MacrostateS, bc.ReactionS)
KINDS = ["dl-domain", "sl-domain", "composite-domain", "strand-complex", "kernel-complex", "resting-macrostate", "reaction"]


def fresh():
    objectio.clear_io_objects()
    for c in CLASSES:
        clear_singletons(c)
        if "ID" in c.__dict__:
            c.ID = 1
    gc.collect()
    objectio.set_io_objects()


def describe(out):
    def rx(r):
        k, u = r.rate_constant
        return [sorted(x.name for x in r.reactants), sorted(x.name for x in r.products), r.rtype,
                (float(k) if k is not None else None), u]
    return {
        "domains": {n: [d.length, d.sequence] for n, d in out["domains"].items()},
        "strands": {n: [str(x) for x in s.sequence] for n, s in out["strands"].items()},
        "complexes": {n: [[str(x) for x in c.sequence], list(c.structure),
                          (list(c.concentration) if c.concentration is not None else None)]
                      for n, c in out["complexes"].items()},
        "macrostates": {n: sorted(x.name for x in m.complexes) for n, m in out["macrostates"].items()},
        "reactions": sorted(rx(r) for r in list(out["det_reactions"]) + list(out["con_reactions"])),
        "det": sorted(rx(r) for r in out["det_reactions"]),
        "con": sorted(rx(r) for r in out["con_reactions"]),
        "other": out["other"],
    }


def outcome(thunk):
    try:
        return ("ok", thunk())
    except RecursionError:
        raise
    except Exception as e:
        return ("err", type(e).__name__)


def _padded(docs):
    """the documents with a trailing comment line each, so that all have the same number of bytes"""
    size = max(len(t.encode()) for t in docs) + 2
    out = []
    for t in docs:
        if not t.endswith("\n"):
            t += "\n"
        k = size - len(t.encode())
        out.append(t + ("#" + "p" * (k - 2) + "\n" if k >= 2 else "\n" * k))
    return out


def _string_read(t):
    fresh()
    k, o = outcome(lambda: objectio.read_pil(t))
    return (k, describe(o) if k == "ok" else None)


def files_in_place(case, d):
    """A document is what the FILE says at the time it is read.  The documents of the case (the document, the same system
    with other concentrations, one document that declares its names with another meaning, the document again) are
    written one after the other (i) to ONE path, rewritten in place with the same number of bytes and the same
    modification time, (ii) under one relative name in different working directories; every read_pil(path, is_file=True)
    (fresh session each) equals read_pil of the text written last."""
    text = case["text"]
    if not case.get("files", True):
        return []
    docs = [text]
    if case.get("second"):
        docs.append(case["second"]["text"])
    docs += list(case.get("released_before") or [])[:1]
    if len(docs) == 1:
        # no relative given: the same document with every number changed in place (lengths, concentrations, rates)
        alt = "".join({"1": "2", "2": "3", "5": "4", "7": "6"}.get(ch, ch) for ch in text)
        if alt != text:
            docs.append(alt)
    docs.append(text)
    if len(docs) < 3:
        return []
    docs = _padded(docs)
    want = [_string_read(t) for t in docs[:-1]]
    want.append(want[0])
    if want[0] != ("ok", d):
        return []                    # the padding comment changed the reading: not this statement's business
    fails = []
    when = 1600000000
    cwd = os.getcwd()
    top = tempfile.mkdtemp(prefix="c14files")
    try:
        for mode in ("in-place", "relative-name"):
            for n, (t, w) in enumerate(zip(docs, want)):
                if mode == "relative-name" and n >= 2:
                    break
                if mode == "in-place":
                    path = os.path.join(top, "system.pil")
                else:
                    sub = os.path.join(top, "d%d" % n)
                    os.mkdir(sub)
                    os.chdir(sub)
                    path = "system.pil"
                with open(path, "w") as f:
                    f.write(t)
                os.utime(path, (when, when + 0.25 * (n % 4)))
                fresh()
                k, o = outcome(lambda: objectio.read_pil(path, is_file=True))
                got = (k, describe(o) if k == "ok" else None)
                o = None
                if got != w:
                    how = ("rewritten in place (same size, same second)" if mode == "in-place" else
                           "of the same relative name in another working directory")
                    detail = ""
                    if got[0] == "ok" and w[0] == "ok":
                        for f in ("domains", "strands", "complexes", "macrostates", "reactions"):
                            if got[1][f] != w[1][f]:
                                if isinstance(w[1][f], dict):
                                    bad = [x for x in sorted(set(list(got[1][f]) + list(w[1][f])))
                                           if got[1][f].get(x) != w[1][f].get(x)][:3]
                                    detail = (f": field {f} at {bad}: read {[got[1][f].get(x) for x in bad]}, "
                                              f"the file declares {[w[1][f].get(x) for x in bad]}")
                                else:
                                    detail = f": field {f}: read {got[1][f][:3]}, the file declares {w[1][f][:3]}"
                                break
                    else:
                        detail = f": outcome {got[0]}, reading the text: {w[0]}"
                    fails.append(f"file-reread-{mode}: read_pil(path, is_file=True) of file number {n} {how} differs from "
                                 f"read_pil of the text it contains{detail}")
                    break
            os.chdir(cwd)
            if fails:
                break
    finally:
        os.chdir(cwd)
        import shutil
        shutil.rmtree(top, ignore_errors=True)
    fresh()
    return fails


def check(case):
    text, exp, ignore, stmts = case["text"], case.get("expected"), case.get("ignore"), case.get("stmts")
    fails = []
    fresh()
    kind, out = outcome(lambda: objectio.read_pil(text))
    if kind == "err":
        if exp is not None:
            return [f"consistent-document-refused: read_pil raised {out}"]
        if out in ("NameError", "TypeError", "AttributeError", "IndexError", "KeyError", "UnboundLocalError",
                   "ValueError", "ZeroDivisionError", "OverflowError"):
            return [f"interpreter-fault: read_pil raised {out} (C14_reader_no_fault / C16)"]
        return []
    d = describe(out)
    if exp is not None:
        for f in ("domains", "strands", "complexes", "macrostates", "reactions"):
            if d[f] != exp[f]:
                keys = sorted(set(list(d[f]) + list(exp[f]))) if isinstance(d[f], dict) else None
                detail = ""
                if keys:
                    bad = [k for k in keys if d[f].get(k) != exp[f].get(k)]
                    detail = f" at {bad[:3]}: read {[d[f].get(k) for k in bad[:3]]}, declared {[exp[f].get(k) for k in bad[:3]]}"
                else:
                    detail = f": read {d[f][:3]}, declared {exp[f][:3]}"
                fails.append(f"field-{f}: differs from the declaration{detail}")
        if any(r[2] != "condensed" for r in d["con"]) or any(r[2] == "condensed" for r in d["det"]):
            fails.append("reaction-filing: condensed and detailed reactions are not separated by type")
        if d["other"]:
            fails.append(f"other: a declared statement was filed under 'other': {d['other'][:1]}")
    # names are keys, keys are names
    for f in ("domains", "strands", "complexes", "macrostates"):
        for n, o in out[f].items():
            if o.name != n:
                fails.append(f"key-{f}: object {o.name!r} filed under {n!r}")
    # referenced objects are the identical singletons
    for n, s in out["strands"].items():
        for x in s.sequence:
            if out["domains"].get(str(x)) is not x:
                fails.append(f"identity-strand: domain {x} of strand {n} is not the dictionary's object")
    for n, c in out["complexes"].items():
        for x in c.sequence:
            if x != "+" and out["domains"].get(str(x)) is not x:
                fails.append(f"identity-complex: domain {x} of complex {n} is not the dictionary's object")
    for n, m in out["macrostates"].items():
        for x in m.complexes:
            if out["complexes"].get(x.name) is not x:
                fails.append(f"identity-macrostate: member {x.name} of {n} is not the dictionary's object")
    for r in list(out["det_reactions"]) + list(out["con_reactions"]):
        pool = out["macrostates"] if r.rtype == "condensed" else out["complexes"]
        for x in list(r.reactants) + list(r.products):
            if pool.get(x.name) is not x:
                fails.append(f"identity-reaction: member {x.name} of {r.name} is not the dictionary's object")
    for n, dom in out["domains"].items():
        cn = n[:-1] if n.endswith("*") else n + "*"
        if out["domains"].get(cn) is not ~dom:
            fails.append(f"identity-complement: ~{n} is not the dictionary's {cn}")
    # a line read on its own, while the document's objects are held, is the same object
    if stmts:
        for tag, st in stmts:
            k2, o2 = outcome(lambda: objectio.read_pil_line(st + "\n"))
            if k2 == "err":
                fails.append(f"line-alone: read_pil_line({st!r}) raised {o2} after the document was read")
                continue
            if isinstance(o2, list):
                continue
            where = {"DomainS": "domains", "StrandS": "strands", "ComplexS": "complexes", "MacrostateS": "macrostates"}.get(type(o2).__name__)
            if where is not None:
                if out[where].get(o2.name) is not o2:
                    fails.append(f"line-alone: read_pil_line({st!r}) is not the object the document holds")
            elif o2 not in out["det_reactions"] and o2 not in out["con_reactions"] or \
                    not any(o2 is r for r in list(out["det_reactions"]) + list(out["con_reactions"])):
                fails.append(f"line-alone: read_pil_line({st!r}) is not the reaction the document holds")
            o2 = None
        if describe(out) != d:
            fails.append("line-alone: re-reading the lines one by one changed the objects of the document")
    # is_file
    fd, path = tempfile.mkstemp(suffix=".pil")
    try:
        with os.fdopen(fd, "w") as f:
            f.write(text)
        k3, out3 = outcome(lambda: objectio.read_pil(path, is_file=True))
    finally:
        os.unlink(path)
    if k3 == "err" or describe(out3) != d:
        fails.append(f"is-file: read_pil(path, is_file=True) differs from read_pil(text): {out3 if k3 == 'err' else ''}")
    elif any(out3[f][n] is not o for f in ("domains", "strands", "complexes", "macrostates") for n, o in out[f].items()):
        fails.append("is-file: reading the file while the text's objects are held returned other objects")
    out3 = None
    # the same system declared again with other concentrations, while the first result is held
    sec = case.get("second")
    if sec and exp is not None:
        k5, out5 = outcome(lambda: objectio.read_pil(sec["text"]))
        if k5 == "err":
            fails.append(f"second-document: re-declaring the live system with other concentrations raised {out5}")
        else:
            d5 = describe(out5)["complexes"]
            bad = [n for n in sec["expected"]["complexes"] if d5.get(n) != sec["expected"]["complexes"][n]]
            if bad:
                fails.append(f"second-document: complexes {bad[:3]} read {[d5.get(n) for n in bad[:3]]} while the first result was "
                             f"held, the document declares {[sec['expected']['complexes'][n] for n in bad[:3]]}")
            if any(out5["complexes"].get(n) is not o for n, o in out["complexes"].items()):
                fails.append("second-document: a live complex declared again is another object")
        out5 = None
    out = None
    # documents read and released before, in the same session: nothing of them may be remembered
    rel = case.get("released_before")
    if rel and exp is not None:
        fresh()
        for e in rel:
            k6, out6 = outcome(lambda: objectio.read_pil(e))
            out6 = None
            gc.collect()
        k6, out6 = outcome(lambda: objectio.read_pil(text))
        if k6 == "err":
            fails.append(f"released-before: read_pil raised {out6} on the consistent document after {len(rel)} other document(s) "
                         f"had been read and released in the same session")
        else:
            d6 = describe(out6)
            for f in ("domains", "strands", "complexes", "macrostates", "reactions"):
                if d6[f] != exp[f]:
                    if isinstance(d6[f], dict):
                        bad = [k for k in sorted(set(list(d6[f]) + list(exp[f]))) if d6[f].get(k) != exp[f].get(k)][:3]
                        detail = f" at {bad}: read {[d6[f].get(k) for k in bad]}, declared {[exp[f].get(k) for k in bad]}"
                    else:
                        detail = f": read {d6[f][:3]}, declared {exp[f][:3]}"
                    fails.append(f"released-before: field {f} differs from the declaration after {len(rel)} other document(s) had "
                                 f"been read and released in the same session{detail}")
        out6 = None
    # the lines one by one in a fresh session, results held: the same objects by description
    if stmts and exp is not None:
        fresh()
        held = []
        bad = None
        for tag, st in stmts:
            k4, o4 = outcome(lambda: objectio.read_pil_line(st + "\n"))
            if k4 == "err":
                bad = f"line-alone: read_pil_line({st!r}) raised {o4} in a line-by-line read"
                break
            held.append(o4)
        if bad:
            fails.append(bad)
        else:
            for o in held:
                if isinstance(o, list):
                    fails.append(f"line-alone: statement read as 'other': {o[:2]}")
                    continue
                t = type(o).__name__
                if t == "DomainS" and [o.length, o.sequence] != exp["domains"].get(o.name):
                    fails.append(f"line-alone: domain {o.name} read alone is {[o.length, o.sequence]}")
                if t == "StrandS" and [str(x) for x in o.sequence] != exp["strands"].get(o.name):
                    fails.append(f"line-alone: strand {o.name} read alone differs")
                if t == "ComplexS":
                    got = [[str(x) for x in o.sequence], list(o.structure), (list(o.concentration) if o.concentration is not None else None)]
                    if got != exp["complexes"].get(o.name):
                        fails.append(f"line-alone: complex {o.name} read alone is {got}")
                if t == "MacrostateS" and sorted(x.name for x in o.complexes) != exp["macrostates"].get(o.name):
                    fails.append(f"line-alone: macrostate {o.name} read alone differs")
        held = None
    # ignore: the read with `ignore` is the read of the document without those statements
    if stmts:
        for ig in ([ignore] if ignore else [[k] for k in case.get("ignore_kinds", KINDS)]):
            if not any(tag in ig for tag, _ in stmts) and not ignore:
                continue
            fresh()
            ka, oa = outcome(lambda: objectio.read_pil(text, ignore=ig))
            da = describe(oa) if ka == "ok" else oa
            oa = None
            fresh()
            rest = "".join(st + "\n" for tag, st in stmts if tag not in ig)
            kb, ob = outcome(lambda: objectio.read_pil(rest)) if rest else ("err", "ParseException")
            db = describe(ob) if kb == "ok" else ob
            ob = None
            if not rest and ka == "ok" and all(not v for v in da.values()):
                continue          # every statement ignored: an empty dictionary (the empty text itself does not parse)
            if (ka, da) != (kb, db):
                fails.append(f"ignore: read_pil(text, ignore={ig}) differs from reading the document without those statements "
                             f"({da if ka == 'err' else 'dictionary'} vs {db if kb == 'err' else 'dictionary'})")
    # documents read from files by path, rewritten between the reads
    fails += files_in_place(case, d)
    return fails


def main():
    req = json.load(sys.stdin)
    fails = []
    for n, c in enumerate(req["cases"]):
        try:
            r = check(c)
        except RecursionError:
            r = []
        except BaseException as e:
            r = [f"oracle-error: {type(e).__name__}: {e}"]
        for what in r[:4]:
            fails.append({"index": n, "case": c, "what": what})
    fresh()
    json.dump({"failures": fails}, sys.stdout)


main()
