"""Direct statement of C13 on the implementation; see peg_oracle.py."""
import peg_oracle
peg_oracle.main("pil")
