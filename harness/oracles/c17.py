"""Direct statement of C17 on the implementation (set semantics of IUPAC codes)."""
import sys, json, warnings
warnings.simplefilter("ignore")
from dsdobjects import iupac_utils as iu

SETS = {"A": "A", "C": "C", "G": "G", "T": "T", "R": "AG", "Y": "CT", "S": "CG", "M": "AC", "W": "AT",
        "K": "GT", "V": "ACG", "H": "ACT", "D": "AGT", "B": "CGT", "N": "ACGT"}
WC = {"A": "T", "C": "G", "G": "C", "T": "A"}
WOB = {"A": "T", "C": "G", "G": "CT", "T": "AG"}


def sets(mat):
    f = (lambda s: s.replace("T", "U")) if mat == "RNA" else (lambda s: s)
    return {f(k): frozenset(f(v)) for k, v in SETS.items()}


def check_seq(seq, mat):
    S = sets(mat)
    inv = {v: k for k, v in S.items()}
    f = (lambda s: s.replace("T", "U")) if mat == "RNA" else (lambda s: s)
    wc = {f(k): f(v) for k, v in WC.items()}
    wob = {f(k): f(v) for k, v in WOB.items()}
    fails = []
    for name, part, rev in (("wc_complement", wc, False), ("complement", wob, False),
                            ("reverse_wc_complement", wc, True), ("reverse_complement", wob, True)):
        want = "".join(inv[frozenset("".join(part[b] for b in S[c]))] for c in (reversed(seq) if rev else seq))
        try:
            got = getattr(iu, name)(seq, material=mat)
        except Exception as e:
            got = f"<{type(e).__name__}>"
        if got != want:
            fails.append({"fn": name, "seq": seq, "material": mat, "expected": want, "observed": got})
    return fails


def check_add(a, b, mat):
    S = sets(mat)
    inv = {v: k for k, v in S.items()}
    inter = [S[x] & S[y] for x, y in zip(a, b)]
    want = "<ConstraintError>" if any(not i for i in inter) else "".join(inv[i] for i in inter)
    try:
        got = iu.add_constraints(a, b, material=mat)
    except Exception as e:
        got = f"<{type(e).__name__}>"
    if got != want:
        return [{"fn": "add_constraints", "seq": [a, b], "material": mat, "expected": want, "observed": repr(got) if not isinstance(got, str) else got}]
    return []


def main():
    req = json.load(sys.stdin)
    fails = []
    for c in req["cases"]:
        if c["kind"] == "seq":
            fails += check_seq(c["seq"], c["material"])
        else:
            fails += check_add(c["a"], c["b"], c["material"])
    json.dump({"failures": fails}, sys.stdout)

main()
