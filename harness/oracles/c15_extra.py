"""C15 clauses that need runtime context the history machine does not model, stated directly on the
implementation: (a) histories of set_io_objects / clear_io_objects calls with partial arguments, each followed
by a read: every object the reader produces is an instance of exactly the class configured by the LAST call
(argument given positionally or by keyword; the base class when omitted or an explicit None) and lives only in that class's registry; (b) a user constructor
that fails leaves no trace even while the caught exception (and its traceback) is still referenced.
stdin: {"seed": int, "n": int}   stdout: {"failures": [...]}"""
import sys, json, gc, random, warnings, logging
warnings.simplefilter("ignore")
logging.disable(logging.CRITICAL)
from dsdobjects import objectio, base_classes as bc
from dsdobjects.singleton import clear_singletons, SingletonError

BASE = {"D": bc.DomainS, "S": bc.StrandS, "C": bc.ComplexS, "M": bc.MacrostateS, "R": bc.ReactionS}
class D1(bc.DomainS): pass
class D2(D1): pass
class S1(bc.StrandS): pass
class C1(bc.ComplexS): pass
class C2(bc.ComplexS): pass
class M1(bc.MacrostateS): pass
class R1(bc.ReactionS): pass
class R2(bc.ReactionS):
    RTYPES = set(['condensed', 'custom', 'bind21'])       # one type more, several less than the base class
SUBS = {"D": [D1, D2], "S": [S1], "C": [C1, C2], "M": [M1], "R": [R1, R2]}
ALL = list(BASE.values()) + [c for v in SUBS.values() for c in v]
DOC = ("length a = 6\nlength b = 7\nstrand s = a b\nX = a( b + ) b*\nY = a b\nstructure Z = s + s : ..+..\n"
       "W = s( + ) a\nV = b s* a\n"
       "state X = [X]\nstate Y = [Y]\nreaction [bind21 = 5 /M/s] X + Y -> Z\nreaction [condensed = 1 /s] X -> Y\n"
       "reaction [custom = 2 /s] X -> W\nreaction [open = 3 /s] W -> X + Y\n")


def fresh():
    objectio.clear_io_objects()
    for c in ALL + [D3, S2, M2]:
        clear_singletons(c)
        if hasattr(c, "ID"):
            c.ID = 1
    gc.collect()


def io_history(rng):
    fresh()
    steps, expect = [], None
    for _ in range(rng.randrange(1, 5)):
        if rng.random() < 0.2:
            objectio.clear_io_objects()
            steps.append("clear_io_objects()")
            expect = None
            continue
        # every slot in every argument form: omitted, an explicit None (what a wrapper forwarding its own optional class
        # arguments passes; it means "base class", like omission), the base class itself, a user subclass; a random prefix
        # of the five slots is passed positionally, the rest by keyword
        form = {k: rng.choice(("omit", "omit", "none", "base", "sub", "sub")) for k in "DSCMR"}
        val = {k: None if f == "none" else BASE[k] if f == "base" else rng.choice(SUBS[k]) if f == "sub" else None
               for k, f in form.items()}
        npos = rng.choice((0, 0, 0, 1, 2, 3, 4, 5))
        pos, kw = [], {}
        for i, k in enumerate("DSCMR"):
            if i < npos:
                pos.append(val[k])            # a positional slot cannot be omitted: "omit" is spelt None there
            elif form[k] != "omit":
                kw[k] = val[k]
        if rng.random() < 0.3:                # keyword order is free
            kw = dict(sorted(kw.items(), key=lambda kv: rng.random()))
        objectio.set_io_objects(*pos, **kw)
        nm = lambda v: "None" if v is None else v.__name__
        steps.append("set_io_objects(" + ", ".join([nm(v) for v in pos] + [f"{k}={nm(v)}" for k, v in kw.items()]) + ")")
        expect = {k: val[k] if val[k] is not None else BASE[k] for k in "DSCMR"}
    if expect is None:
        return None
    for c in ALL:
        clear_singletons(c)
    try:
        out = objectio.read_pil(DOC)
    except Exception as e:
        fresh()
        return {"steps": steps, "what": [f"reading a consistent document raised {type(e).__name__}: {e}"]}
    bad = []
    # reaction types are those of the CONFIGURED reaction class: others are announced as ignored and go to `other`
    rtypes = expect["R"].RTYPES
    want = sorted(t for t in ("bind21", "condensed", "custom", "open") if t in rtypes)
    got = sorted(r.rtype for r in list(out["det_reactions"]) + list(out["con_reactions"]))
    if got != want:
        bad.append(f"reactions read have types {got}, the configured class {expect['R'].__name__} accepts {want}")
    w = out["complexes"].get("W")
    if w is None or [str(x) for x in w.sequence] != ["a", "b", "+", "b*", "a*", "a"]:
        bad.append("composite-domain expansion in W = s( + ) a is wrong: " + (repr([str(x) for x in w.sequence]) if w else "missing"))
    kinds = {"D": list(out["domains"].values()), "S": list(out["strands"].values()), "C": list(out["complexes"].values()),
             "M": list(out["macrostates"].values()), "R": list(out["det_reactions"]) + list(out["con_reactions"])}
    for k, objs in kinds.items():
        if not objs:
            bad.append(f"no {k} objects read")
        for o in objs:
            if type(o) is not expect[k]:
                bad.append(f"{k} object {o.name} is a {type(o).__name__}, configured class is {expect[k].__name__}")
        for c in [BASE[k]] + SUBS[k]:
            if c is not expect[k] and (k != "S" or c is not bc.ComplexS):
                # StrandS is a subclass of ComplexS with its own registry: only its own kind is checked
                if len(c._instanceNames) and c not in expect.values():
                    bad.append(f"registry of {c.__name__} is not empty although it is not configured")
    # single lines go through the same slots
    try:
        one = objectio.read_pil_line("length c = 7")
        if type(one) is not expect["D"]:
            bad.append(f"read_pil_line('length c = 7') gave a {type(one).__name__}, configured class is {expect['D'].__name__}")
    except Exception as e:
        bad.append(f"read_pil_line('length c = 7') raised {type(e).__name__}: {e}")
    one = None
    # closing the IO session does not touch what the result holds: every held object stays the singleton of its name
    # in the class that was configured
    objectio.clear_io_objects()
    for k, f in (("D", "domains"), ("S", "strands"), ("C", "complexes"), ("M", "macrostates")):
        for n, o in out[f].items():
            try:
                again = expect[k](n) if k == "D" else expect[k](None, name=n) if k == "S" else \
                    expect[k](None, None, n) if k == "C" else expect[k](None, n)
            except Exception as e:
                bad.append(f"after clear_io_objects() the held {f[:-1]} {n} cannot be looked up: {type(e).__name__}")
                break
            if again is not o:
                bad.append(f"after clear_io_objects() the held {f[:-1]} {n} is no longer the singleton of its name")
                break
    out = None
    fresh()
    return {"steps": steps + ["read_pil(DOC)", "clear_io_objects()", "look-ups by name"], "what": bad[:4]} if bad else None


def failing_ctor(kind, when):
    fresh()
    if kind == "D":
        class F(bc.DomainS):
            FAIL = True
            def __init__(self, *a, **k):
                if F.FAIL and when == "before": raise RuntimeError("boom")
                super().__init__(*a, **k)
                if F.FAIL and when == "after": raise RuntimeError("boom")
        make = lambda n: F("f", n)
    else:
        a = bc.DomainS("a", 5)
        class F(bc.ComplexS):
            FAIL = True
            def __init__(self, *a_, **k):
                if F.FAIL and when == "before": raise RuntimeError("boom")
                super().__init__(*a_, **k)
                if F.FAIL and when == "after": raise RuntimeError("boom")
        make = lambda n: F([a] * n, list("." * n), name="f")
    held = []
    try:
        make(3)
        return {"steps": [kind, when], "what": ["the failing constructor returned an object"]}
    except RuntimeError as e:
        held.append(e)                       # the exception and its traceback stay referenced
    bad = []
    if len(F._instanceNames):
        bad.append(f"name registry of the failing class is not empty while the exception is held: {list(F._instanceNames.keys())}")
    # recorded finding c15_failing_ctor_canon_held: ComplexS.__init__ registers the rotation keys itself, so a
    # user __init__ failing AFTER it leaves them bound to the half-built object for as long as the traceback lives
    if len(F._instanceCanon) and not (kind == "C" and when == "after"):
        bad.append("canonical-form registry of the failing class is not empty while the exception is held")
    F.FAIL = False
    try:
        o = make(4)                          # same name, other parameters: must be a fresh, complete object
        if kind == "D" and (o.name != "f" or o.length != 4):
            bad.append(f"re-request gave {o!r}")
        if kind == "C" and (o.name != "f" or len(list(o.sequence)) != 4):
            bad.append("re-request gave an incomplete or old object")
    except Exception as e:
        bad.append(f"re-request after the failed construction raised {type(e).__name__}")
    del held
    clear_singletons(F)
    fresh()
    return {"steps": [kind, when, "exception held"], "what": bad} if bad else None


class D3(bc.DomainS): pass            # siblings of D1 / M1 / the base classes' other subclasses
class S2(bc.StrandS): pass
class M2(bc.MacrostateS): pass


def twins(base):
    """two classes that no naming attribute tells apart (what a class factory called twice, type() called twice or a
    re-executed class statement give): a registry belongs to the class object, not to its name"""
    def make():
        class Twin(base):
            pass
        return Twin
    return make(), make()


def siblings():
    """objects of classes none of which derives from the other (and a sub-subclass against its parent's sibling, and two
    classes of the same name from one class factory) are distinct objects in distinct registries, yet compare equal and
    hash equally when name / canonical form agree"""
    fresh()
    bad = []
    def same(kind, x, y):
        if x is y:
            bad.append(f"{kind}: {type(x).__name__} and {type(y).__name__} share one object")
        if type(x) is type(y):
            bad.append(f"{kind}: requests to two sibling classes gave two objects of one class, {type(x).__name__}")
        if not (x == y) or (x != y) or not (y == x) or (y != x):
            bad.append(f"{kind}: {type(x).__name__}({x.name}) and {type(y).__name__}({y.name}) with the same description do not compare equal")
        elif hash(x) != hash(y):
            bad.append(f"{kind}: equal objects of {type(x).__name__} and {type(y).__name__} hash differently")
        elif len({x, y}) != 1:
            bad.append(f"{kind}: a set keeps both of two equal objects")
    held = []

    def both(kind, A, B, fa, fb):
        """the same description requested from A, then from B: the second request is neither refused nor answered by A"""
        try:
            x = fa()
        except Exception as e:
            bad.append(f"{kind}: the first request to {A.__name__} (no object of that class alive) raises {type(e).__name__}: {e}")
            return None, None
        try:
            y = fb()
        except Exception as e:
            bad.append(f"{kind}: with an object of sibling class {A.__name__} alive, the request for the same description to "
                       f"{B.__name__} raises {type(e).__name__}")
            return x, None
        return x, y
    for A, B in ((D1, D3), (D2, D3), (D3, D1), twins(bc.DomainS), twins(D1)):
        x, y = both("domain", A, B, lambda: A("q", 7), lambda: B("q", 7))
        if y is None:
            continue
        held += [x, y]
        same("domain", x, y)
        same("domain", ~x, ~y)
        # nucleotide sequences are attributes, not part of the canonical form
        x.sequence, y.sequence = "NNNNNNN", "GGATCAA"
        same("domain (different sequence attributes)", x, y)
        x.sequence = y.sequence = None
    d = {cls: [cls("a", 5), cls("b", 6)] for cls in (bc.DomainS,)}
    a, b = d[bc.DomainS]
    for A, B in ((C1, C2), (S1, S2), twins(bc.ComplexS), twins(bc.StrandS)):
        if issubclass(A, bc.StrandS):
            x, y = both("strand", A, B, lambda: A([a, b], name="k"), lambda: B([a, b], name="k"))
        else:
            x, y = both("complex", A, B, lambda: A([a, ~a, "+", b], list("()+."), name="k"),
                        lambda: B([b, "+", a, ~a], list(".+()"), name="k"))
        if y is None:
            continue
        held += [x, y]
        same("strand" if issubclass(A, bc.StrandS) else "complex", x, y)
    c1 = bc.ComplexS([a, b], list(".."), name="m1")
    c2 = bc.ComplexS([b, a], list(".."), name="m2")
    mx, my = M1([c1, c2]), M2([c2, c1])
    same("macrostate", mx, my)
    MT1, MT2 = twins(bc.MacrostateS)
    RT1, RT2 = twins(bc.ReactionS)
    mx, my = both("macrostate", MT1, MT2, lambda: MT1([c1, c2]), lambda: MT2([c2, c1]))
    if my is not None:
        same("macrostate", mx, my)
    rx, ry = both("reaction", RT1, RT2, lambda: RT1([c1, c2], [c2], "bind21"), lambda: RT2([c2, c1], [c2], "bind21"))
    if ry is not None:
        same("reaction", rx, ry)
    rx, ry = R1([c1], [c2], "open"), R2([c1], [c2], "bind21")
    r1, r2 = R1([c1, c2], [c2], "bind21"), R2([c2, c1], [c2], "bind21")
    same("reaction", r1, r2)
    if rx == ry:
        bad.append("reactions of different type compare equal")
    # registries are independent: clearing the registry of a base class leaves the registries of its subclasses alone
    u1, u2 = D1("u", 4), D2("u", 4)
    k1 = C1([u1], ["."], name="ku")
    clear_singletons(bc.DomainS)
    clear_singletons(bc.ComplexS)
    try:
        if D1("u") is not u1 or D2("u") is not u2 or C1(None, None, "ku") is not k1:
            bad.append("clear_singletons(base class) changed what a live subclass object's name denotes")
    except SingletonError:
        bad.append("clear_singletons(base class) emptied the registry of a subclass whose objects are alive")
    del held, mx, my, rx, ry, r1, r2, c1, c2, a, b, d, u1, u2, k1
    fresh()
    return {"steps": ["sibling classes"], "what": bad[:4]} if bad else None


LOOKUP = {"D": lambda c, n: c(n), "S": lambda c, n: c(None, name=n), "C": lambda c, n: c(None, None, n),
          "M": lambda c, n: c(None, n)}
POOL = {"D": [bc.DomainS, D1, D2, D3], "S": [bc.StrandS, S1, S2], "C": [bc.ComplexS, C1, C2],
        "M": [bc.MacrostateS, M1, M2], "R": [bc.ReactionS, R1]}


def derive(rng, parent):
    """a class that comes into being NOW (class statement in a function, or type()), whatever is alive at that moment"""
    if rng.random() < 0.5:
        class Late(parent):
            pass
        return Late
    return type(parent)("Late", (parent,), {})


def session_doc(i, rng):
    """the i-th document of a history: the SAME domain names (and lengths) as every other document of the history, used
    inside strand and complex lines in a random order; strand / complex / macrostate names and all canonical forms differ
    from those of the other documents (i further unpaired domains), so that documents never contend for a description"""
    p, q, r = rng.sample(["a", "b", "c"], 3)
    tail = "".join(" " + rng.choice(["a", "b", "c", "a*", "c*"]) for _ in range(i + 1))
    return (f"length a = 6\nlength b = 7\nlength c = 5\nsup-sequence s{i} = {p} {q} {r}{tail}\n"
            f"X{i} = {p}( {q}( + ) ) {r}{tail}\nY{i} = {q} {p}{tail}\nstructure Z{i} = s{i} + s{i} : {'.' * (4 + i)}+{'.' * (4 + i)}\n"
            f"W{i} = {r}*( s{i} + ){tail}\n"
            f"state X{i} = [X{i}]\nstate Y{i} = [Y{i}, Z{i}]\nreaction [condensed = 1 /s] X{i} -> Y{i}\n"
            f"reaction [bind21 = 5 /M/s] X{i} + Y{i} -> Z{i}\n")


def held_intact(sessions, bad, when):
    """every object an earlier session handed out (and the application still holds) is the singleton of its name in the
    class that was configured when it was read"""
    for j, (cfg, out) in enumerate(sessions):
        for k, f in (("D", "domains"), ("S", "strands"), ("C", "complexes"), ("M", "macrostates")):
            for n, o in out[f].items():
                try:
                    again = LOOKUP[k](cfg[k], n)
                except Exception as e:
                    bad.append(f"{when}: the held {f[:-2] if k == "C" else f[:-1]} {n} of read {j} ({cfg[k].__name__}) cannot be looked up: {type(e).__name__}")
                    return
                if again is not o:
                    bad.append(f"{when}: the held {f[:-2] if k == "C" else f[:-1]} {n} of read {j} is no longer the singleton of its name in {cfg[k].__name__}")
                    return


def io_sessions(rng):
    """several reader sessions in ONE process, the results of the earlier ones still held: reconfiguration with or without an
    intervening clear_io_objects(), classes that are derived between two sessions, documents that use the same domain names.
    After every read: each object of the result AND each object inside it (domains of strands and complexes, members of
    macrostates, reactants and products) is an instance of exactly the configured class and the singleton of its name in
    that class's registry; what earlier sessions handed out is untouched."""
    fresh()
    late, sessions, steps, bad = [], [], [], []
    for i in range(rng.randrange(2, 4)):
        if i and rng.random() < 0.3:
            objectio.clear_io_objects()
            steps.append("clear_io_objects()")
        cfg, txt = {}, []
        for k in "DSCMR":
            c = rng.choice(POOL[k] + [None, None])          # None: a class derived at this moment from a random pool class
            if c is None:
                parent = rng.choice(POOL[k] + [x for x in late if issubclass(x, BASE[k]) and (k != "C" or not issubclass(x, bc.StrandS))])
                c = derive(rng, parent)
                late.append(c)
                held_intact(sessions, bad, f"after deriving a class from {parent.__name__}")
                txt.append(f"{k}=<new subclass of {parent.__name__}>")
            else:
                txt.append(f"{k}={c.__name__}")
            cfg[k] = c
        kw = {k: c for k, c in cfg.items() if c is not BASE[k] or rng.random() < 0.5}
        objectio.set_io_objects(**kw)
        steps.append("set_io_objects(" + ", ".join(t for t in txt if t[0] in kw) + ")")
        doc = session_doc(i, rng)
        steps.append("held = read_pil(" + repr(doc) + ")")
        try:
            out = objectio.read_pil(doc)
        except Exception as e:
            bad.append(f"reading a consistent document in read {i} raised {type(e).__name__}: {e}")
            break
        sessions.append((cfg, out))
        kinds = {"D": list(out["domains"].values()), "S": list(out["strands"].values()), "C": list(out["complexes"].values()),
                 "M": list(out["macrostates"].values()), "R": list(out["det_reactions"]) + list(out["con_reactions"])}
        inner = [("D", d, f"in {o.name}") for o in kinds["S"] + kinds["C"] for d in o.sequence if d != "+"]
        inner += [("C", c, f"in {m.name}") for m in kinds["M"] for c in m.complexes]
        inner += [("M" if r.rtype == "condensed" else "C", x, f"in a {r.rtype} reaction") for r in kinds["R"]
                  for x in list(r.reactants) + list(r.products)]
        for k, objs in kinds.items():
            if not objs:
                bad.append(f"read {i}: no {k} objects read")
            inner += [(k, o, "in the result") for o in objs]
        table = {"D": out["domains"], "S": out["strands"], "C": out["complexes"], "M": out["macrostates"]}
        for k, o, where in inner:
            if type(o) is not cfg[k]:
                bad.append(f"read {i}: {k} object {o.name} {where} is a {type(o).__name__} (of {type(o).__mro__[1].__name__}), "
                           f"configured class is {cfg[k].__name__}")
            elif k in table and table[k].get(o.name) is not o:
                bad.append(f"read {i}: {k} object {o.name} {where} is not the object the result lists under that name")
        inner = None
        held_intact(sessions, bad, f"after read {i}")
        if bad:
            break
    objectio.clear_io_objects()
    if not bad:
        held_intact(sessions, bad, "after the final clear_io_objects()")
    sessions = out = kinds = table = None
    for c in late:
        clear_singletons(c)
    fresh()
    return {"steps": steps, "what": bad[:4]} if bad else None


def late_classes(rng):
    """a class statement (or type()) executed while objects of every library class and of user classes are alive: the
    new class gets registries of its own, empty, and NO registry of any existing class changes; every live object is still the
    singleton of its name, conflicting requests are still refused"""
    fresh()
    bad, live, classes = [], [], list(ALL) + [D3, S2, M2]
    doms = {}
    for c in (bc.DomainS, D1, D2, D3):
        doms[c] = [c("a", 5), c("b", 6)]
        live += [(c, "D", o) for o in doms[c]]
    a, b = doms[bc.DomainS]
    cps = {}
    for c in (bc.ComplexS, C1, C2):
        x, y = doms[rng.choice(list(doms))]
        cps[c] = [c([x, y, "+", ~y], list(".(+)"), name="k"), c([y, x], list(".."), name="l")]
        live += [(c, "C", o) for o in cps[c]]
    for c in (bc.StrandS, S1, S2):
        live.append((c, "S", c([a, b, a], name="s")))
    for c in (bc.MacrostateS, M1, M2):
        cx = rng.choice(cps[bc.ComplexS])
        live.append((c, "M", c([cx], name=cx.name)))
    rx = [c([cps[bc.ComplexS][0]], [cps[bc.ComplexS][1]], "bind21") for c in (bc.ReactionS, R1, R2)]
    snap = lambda: {c: (sorted((n, id(o)) for n, o in c._instanceNames.items()), sorted(id(o) for o in c._instanceCanon.values()))
                    for c in classes}
    order = list(classes)
    rng.shuffle(order)
    for parent in order:
        before = snap()
        child = derive(rng, parent)
        after = snap()
        for c in classes:
            if before[c] != after[c]:
                bad.append(f"deriving a class from {parent.__name__} changed the registry of {c.__name__}: "
                           f"{len(before[c][0])} names / {len(before[c][1])} canonical forms before, {len(after[c][0])} / {len(after[c][1])} after")
        if len(child._instanceNames) or len(child._instanceCanon):
            bad.append(f"a class just derived from {parent.__name__} is born with a non-empty registry")
        for c in classes:
            if child._instanceNames is c._instanceNames or child._instanceCanon is c._instanceCanon:
                bad.append(f"a class just derived from {parent.__name__} shares a registry with {c.__name__}")
        for c, k, o in live:
            try:
                if LOOKUP[k](c, o.name) is not o:
                    bad.append(f"after deriving from {parent.__name__}: {c.__name__} {o.name} is no longer the singleton of its name")
            except Exception as e:
                bad.append(f"after deriving from {parent.__name__}: live {c.__name__} {o.name} cannot be looked up ({type(e).__name__})")
        for c in doms:
            try:
                other = c("b", 9)
                bad.append(f"after deriving from {parent.__name__}: conflicting {c.__name__}('b', 9) accepted next to the live b of length 6")
                del other
            except SingletonError:
                pass
        classes.append(child)
        if bad:
            break
    del live, doms, cps, rx, a, b, x, y, cx
    for c in classes:
        clear_singletons(c)
    fresh()
    return {"steps": ["objects of all classes alive", "derive a class from each class in turn"], "what": bad[:4]} if bad else None


def main():
    req = json.load(sys.stdin)
    rng = random.Random(req.get("seed", 0))
    fails = []
    for _ in range(req.get("n", 50)):
        r = io_history(rng)
        if r:
            fails.append(r)
    for kind in "DC":
        for when in ("before", "after"):
            r = failing_ctor(kind, when)
            if r:
                fails.append(r)
    try:
        r = siblings()
    except Exception as e:              # a statement that cannot be evaluated is a failure of that statement, not of the check
        r = {"steps": ["sibling classes"], "what": [f"the sibling-class statements raised {type(e).__name__}: {e}"]}
        fresh()
    if r:
        fails.append(r)
    # later additions draw after everything above
    for f, m in ((io_sessions, max(10, req.get("n", 50) // 2)), (late_classes, 3)):
        seen = 0
        for _ in range(m):
            try:
                r = f(rng) if seen < 3 else None          # three failing histories of one statement are enough
            except Exception as e:
                r = {"steps": [f.__name__], "what": [f"the statements of {f.__name__} raised {type(e).__name__}: {e}"]}
                fresh()
            if r:
                seen += 1
                fails.append(r)
    json.dump({"failures": fails[:12]}, sys.stdout)

main()
