"""Direct statement of C18 on the implementation, with exact rational arithmetic."""
import sys, json, math, warnings, gc
from fractions import Fraction
warnings.simplefilter("ignore")
sys.path.insert(0, __import__("os").path.dirname(__import__("os").path.dirname(__import__("os").path.abspath(__file__))))
from dsdobjects.utils import convert_units, flint
from impl import units as impl_units

CONC = {"M": Fraction(1), "mM": Fraction(1, 10**3), "uM": Fraction(1, 10**6), "nM": Fraction(1, 10**9), "pM": Fraction(1, 10**12)}
TIME = {"days": Fraction(86400), "hours": Fraction(3600), "h": Fraction(3600), "min": Fraction(60), "m": Fraction(60),
        "s": Fraction(1), "ms": Fraction(1, 10**3), "us": Fraction(1, 10**6), "ns": Fraction(1, 10**9)}
EPS = Fraction(4, 2**53)
OPS = {}
impl_units.register(lambda name: (lambda f: OPS.__setitem__(name, f) or f))


def finite(v):
    return isinstance(v, int) or (v == v and abs(v) != math.inf)


def close(got, want):
    """got numerically equals want up to a few ulp (want exact rational)"""
    if not finite(got):
        return False
    g = Fraction(got)
    if want == 0:
        return g == 0
    return abs(g - want) <= EPS * abs(want)


def fam(u):
    return CONC if u in CONC else TIME if u in TIME else None


def in_range(x):
    return x == 0 or Fraction(1, 2**1000) < abs(x) < Fraction(2**1000)


def check(case):
    op, a = case["op"], case["arg"]
    try:
        if op == "flint":
            if not finite(a):
                return None
            r = flint(a)
            if Fraction(r) != Fraction(a):
                return ("flint-value", f"flint({a!r}) = {r!r} is not numerically equal")
            if (Fraction(a).denominator == 1) != isinstance(r, int):
                return ("flint-type", f"flint({a!r}) = {r!r}: integral values must be int, others float")
            return None
        if op in ("convert_units", "concentrationformat"):
            v, ua, ub = (a[0], a[1], a[2]) if op == "convert_units" else (a[1], a[2], a[3])
            fa, fb = fam(ua), fam(ub)
            try:
                r = convert_units(v, ua, ub) if op == "convert_units" else OPS[op](a)
            except Exception as e:
                if fa is not None and fa is fb and finite(v) and in_range(Fraction(v) * fa[ua] / fb[ub]) and in_range(Fraction(v) * fa[ua]):
                    return ("convert-raises", f"{op}{tuple(a)} raised {type(e).__name__} for units of one family")
                return None
            if fa is None or fa is not fb:
                return ("convert-mixed", f"{op}{tuple(a)} = {r!r}: unknown or mixed-family units must raise")
            if finite(v):
                want = Fraction(v) * fa[ua] / fb[ub]
                if in_range(want) and in_range(Fraction(v) * fa[ua]) and not close(r, want):
                    return ("convert-value", f"{op}{tuple(a)} = {r!r}, exact value {float(want)!r}")
                if isinstance(r, float) and r == int(r) if finite(r) else False:
                    return ("convert-type", f"{op}{tuple(a)} = {r!r}: integral results must be int")
            return None
        if op == "rateformat":
            c, u, n, out = a
            if u is None or not finite(c):
                return None
            old, new = u.split("/")[1:], out.split("/")[1:]
            wf = lambda us: len(us) == n and all(x in CONC for x in us[:-1]) and us[-1] in TIME and n >= 1
            if not (wf(old) and wf(new)) or u[0] != "/" or out[0] != "/":
                return None
            try:
                r = OPS["rateformat"](a)
            except Exception as e:
                return ("rateformat-raises", f"rateformat {a} raised {type(e).__name__} ({str(e)[:160]}): every grammar rate unit must be convertible, for the reaction asked")
            want = Fraction(c)
            for i, o in zip(old, new):
                f = fam(i)
                want = want * f[o] / f[i]          # one inverse factor per unit: k /i = k * (o/i) /o
            if in_range(want) and not close(r, want):
                return ("rateformat-value", f"rateformat {a} = {r!r}, exact {float(want)!r}")
            try:
                back = OPS["rateformat"]([r, out, n, u])
            except Exception as e:
                return ("rateformat-roundtrip", f"rateformat back raised {type(e).__name__}")
            if in_range(want) and not close(back, Fraction(c)):
                return ("rateformat-roundtrip", f"rateformat {a} then back gives {back!r}")
            return None
        if op == "rate_set_get":
            form, c, u = a
            if form not in (0, 1, 2) or not finite(c):
                return None
            try:
                r = OPS["rate_set_get"](a)
            except Exception as e:
                return ("rate-get", f"rate_constant set as form {form} value {c!r} then read raised {type(e).__name__}")
            if isinstance(c, int) and abs(c) > 2**53:
                return None
            if Fraction(r[0]) != Fraction(c) or r[1] != (u if form == 2 else None):
                return ("rate-get", f"rate_constant set as form {form} ({c!r}, {u!r}) reads back {r!r}")
            return None
    except Exception as e:          # oracle must not crash on odd inputs
        return ("oracle-error", f"{type(e).__name__}: {e}")
    return None


def main():
    req = json.load(sys.stdin)
    fails = []
    for c in req["cases"]:
        r = check(c)
        if r is not None:
            fails.append({"key": {"class": r[0], "arg": repr(c["arg"])},
                          "case": c, "what": r[1],
                          "snippet": f"# op {c['op']} with argument {c['arg']!r} (see harness/impl/units.py for the op)"})
    json.dump({"failures": fails}, sys.stdout)

main()
