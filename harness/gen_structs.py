"""Generators of dot-bracket structures and aligned domain sequences."""
import itertools


def all_strings(alphabet, maxlen, minlen=0):
    for n in range(minlen, maxlen + 1):
        for t in itertools.product(alphabet, repeat=n):
            yield "".join(t)


def is_wf(s, brk="+", ign="."):
    d = 0
    for c in s:
        if c == brk:
            continue
        if c == "(":
            d += 1
        elif c == ")":
            d -= 1
            if d < 0:
                return False
        elif c in ign:
            pass
        else:
            return False
    return d == 0


def nonempty_strands(s, brk="+"):
    return all(len(p) > 0 for p in s.split(brk))


def all_wf(maxlen, brk="+", minlen=1, nonempty=True):
    """every well-formed structure over ( ) . brk of length <= maxlen"""
    for s in all_strings("()." + brk, maxlen, minlen):
        if is_wf(s, brk) and (not nonempty or nonempty_strands(s, brk)):
            yield s


def random_wf(rng, size, p_break=0.15, p_open=0.3, p_close=0.3, brk="+", nonempty=True):
    """random well-formed structure with about `size` positions"""
    out, depth = [], 0
    while len(out) < size or depth > 0:
        r = rng.random()
        can_break = out and (not nonempty or out[-1] != brk)
        if len(out) >= size:
            # finish: close everything
            if r < p_break and can_break:
                out.append(brk)
            else:
                out.append(")"); depth -= 1
            continue
        if r < p_break and can_break:
            out.append(brk)
        elif r < p_break + p_open:
            out.append("("); depth += 1
        elif r < p_break + p_open + p_close and depth > 0:
            out.append(")"); depth -= 1
        else:
            out.append(".")
    while nonempty and out and out[-1] == brk:
        out.append(".")
    return "".join(out)


def mutate(rng, s, alphabet="().+x"):
    """single-fault mutation"""
    if not s:
        return rng.choice(alphabet)
    k = rng.randrange(3)
    i = rng.randrange(len(s))
    if k == 0:
        return s[:i] + s[i + 1:]
    if k == 1:
        return s[:i] + rng.choice(alphabet) + s[i:]
    return s[:i] + rng.choice(alphabet) + s[i + 1:]


def pair_positions(s, brk="+"):
    """flat index pairs (i, j) of a well-formed structure (quadratic-free stack, used
    only by generators, never as an oracle)"""
    st, out = [], []
    for i, c in enumerate(s):
        if c == "(":
            st.append(i)
        elif c == ")":
            out.append((st.pop(), i))
    return out


def comp(name):
    return name[:-1] if name.endswith("*") else name + "*"


def seq_for(rng, s, names=("a", "b", "c"), brk="+", complementary=True):
    """a domain-name sequence aligned with structure s; paired positions get
    complementary names when `complementary`"""
    seq = [None] * len(s)
    for i, c in enumerate(s):
        if c == brk:
            seq[i] = "+"
    for (i, j) in pair_positions(s, brk):
        n = rng.choice(names)
        if rng.random() < 0.3:
            n = comp(n)
        seq[i] = n
        seq[j] = comp(n) if complementary else rng.choice(names)
    for i in range(len(s)):
        if seq[i] is None:
            n = rng.choice(names)
            seq[i] = comp(n) if rng.random() < 0.2 else n
    return seq


def shrink_string(s):
    """candidates for shrinking a string: delete one position, then blocks"""
    for i in range(len(s)):
        yield s[:i] + s[i + 1:]
    for i in range(len(s)):
        for j in range(i + 2, min(len(s), i + 6) + 1):
            yield s[:i] + s[j:]
