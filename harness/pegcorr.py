"""Correspondence for the two grammars (C13, C19): like corr.correspond, but the
results of both sides are returned as well, so that the direct statement of the
property (parse(render(tree)) == [tree], rejections) can be evaluated on the
implementation's answers without running it twice."""
import collections
from common import run_model, run_impl, Err, enc
from corr import MODEL_FAULTS, outcome_kind


def _retry(f, attempts=4):
    """the extracted runner is rebuilt under a lock by concurrently running checks; a call that
    hits the moment the executable is being replaced is repeated"""
    import time
    from common import ensure_model_runner
    for k in range(attempts):
        try:
            return f()
        except RuntimeError:
            if k == attempts - 1:
                raise
            time.sleep(3 + 4 * k)
            ensure_model_runner()


def run_both(ctx, name, reqs, jobs=8):
    """returns (diffs, model results, implementation results)"""
    if not reqs:
        return [], [], []
    m = _retry(lambda: run_model(reqs, jobs=jobs))
    i = run_impl(reqs, jobs=jobs)
    diffs, kinds, sizes, distinct = [], collections.Counter(), collections.Counter(), set()
    for k, (rq, a, b) in enumerate(zip(reqs, m, i)):
        kinds[rq[0] + ":" + outcome_kind(b)] += 1
        sizes[min(len(rq[1]) // 50 * 50, 2000)] += 1
        if (isinstance(a, Err) and a.kind in MODEL_FAULTS) or a != b:
            diffs.append((k, rq, a, b))
        elif not isinstance(b, Err):
            distinct.add(enc(b))
    st = ctx.cov["correspondence"].setdefault(name, {"cases": 0, "disagreements": 0, "outcomes": {},
                                                     "text_length_histogram": {}, "distinct_results": 0})
    st["cases"] += len(reqs)
    st["disagreements"] += len(diffs)
    for k, v in kinds.items():
        st["outcomes"][k] = st["outcomes"].get(k, 0) + v
    for k, v in sizes.items():
        st["text_length_histogram"][str(k)] = st["text_length_histogram"].get(str(k), 0) + v
    st["distinct_results"] += len(distinct)
    ctx.add_eval(len(reqs), len(distinct),
                 samples=[{"op": reqs[0][0], "arg": reqs[0][1], "model": repr(m[0]), "impl": repr(i[0])}])
    return diffs, m, i


def shrink_text(text, still_bad, budget=150):
    """greedy: delete a line, then a character, while the text still misbehaves"""
    cur, n = text, 0
    progress = True
    while progress and n < budget:
        progress = False
        lines = cur.split("\n")
        cands = ["\n".join(lines[:j] + lines[j + 1:]) for j in range(len(lines))] if len(lines) > 1 else []
        step = max(1, len(cur) // 40)
        cands += [cur[:j] + cur[j + step:] for j in range(0, len(cur), step)]
        if step > 1:
            cands += [cur[:j] + cur[j + 1:] for j in range(len(cur))]
        for c in cands:
            n += 1
            if n > budget:
                break
            if c != cur and still_bad(c):
                cur, progress = c, True
                break
    return cur
