"""Writes /verif/MANIFEST.json from the table below (kept in one place so that the
manifest stays valid while properties are added)."""
import json, os, sys
VERIF = os.path.dirname(os.path.dirname(os.path.abspath(__file__)))

BASE_NOTE = ("Trusted: Coq 8.16.1 kernel (vm_compute used, no native_compute, no axioms declared; Print Assumptions "
             "checked on every run), the translators harness/gen_*.py, extraction (ExtrOcamlBasic only) + "
             "extract/driver.ml, the correspondence harness, CPython/pyparsing as the executed implementation. "
             "Theorems are about the Gallina model; the tie to /repo is re-established on every run by regenerated "
             "tables and by differential correspondence on generated inputs.")

CHECKS = {
 "C06": dict(
    text="Proof: make_pair_table accepts exactly the well-formed strings and rejects all others with "
         "SecondaryStructureError; the table is a symmetric, fixpoint-free, properly nested pairing and "
         "pair_table_to_dot_bracket returns the original string; strand-table split/join are inverse in both "
         "directions (list and string form, any break character). All by induction, no size bound. The model "
         "is tied to the code by exhaustive (length<=7 quick / 9 thorough over '().+x') and random differential "
         "runs of every modelled function, including rotate_complex_once on ill-formed input.",
    design="DESIGN.md 5, 7 (C06)", technique="Coq proof (induction on Dyck trees) + model/implementation correspondence"),
 "C17": dict(
    text="Proof: the complement tables regenerated from the code on every run are set-exact against the IUPAC "
         "bit-mask specification for all 15 codes x 2 materials (kernel-checked finite computation), lifted to "
         "sequences of every length by induction (Forall2), reverse variants, involution, DNA/RNA T<->U, and "
         "add_constraints = position-wise intersection / ConstraintError iff some intersection is empty.",
    design="DESIGN.md 7 (C17)", technique="Coq proof over regenerated tables (vm_compute on finite domain, induction for sequences) + correspondence"),
 "C18": dict(
    text="Proof: over the unit tables regenerated from the code on every run: every generated scale is the ideal decimal "
         "value (ints) or the double nearest to it; every rate unit the grammar accepts is known to convert_units in the "
         "right family; families are disjoint; the float-level model (Python int/float semantics on PrimFloat, "
         "correctly rounded int->float and int/int) answers unknown units with ValueError, mixed families with an "
         "exception, and returns a number only within one family; exact rational layer: identity, composition, "
         "inversion, one inverse factor per unit for rate constants and round trip; flint on every finite float returns a "
         "numerically equal value, an int exactly when integral (no axioms), every Python int of any size is returned unchanged "
         "(after the repair f8ab925 of the big-int defect this check had found); convert_units on floats is within 3*2^-53 of the "
         "exact conversion whenever the intermediates stay in the normal range (Flocq bridge), and the unconditional bound "
         "is refuted for subnormal underflow. Model tied to the code bit-exactly (vm_compute inside Coq vs Python through mantissa/exponent) on "
         "all unit pairs x values over 600 decades, huge ints, rate units of arity 1-3.",
    design="DESIGN.md 7 (C18)", technique="Coq proof over regenerated tables + rational algebra; PrimFloat model evaluated by vm_compute, bit-exact correspondence",
    note=BASE_NOTE + " PrimFloat/PrimInt63 kernel primitives appear in Print Assumptions (not axioms of this development). "
         "The float error-bound theorems and C18_flint_small_int depend on standard-library axioms only: FloatAxioms (mul_spec, "
         "div_spec, eqb_spec, abs_spec, SF2Prim_Prim2SF, Prim2SF_valid, Prim2SF_SF2Prim) and, through Flocq/Reals, "
         "ClassicalDedekindReals.sig_not_dec, sig_forall_dec, Classical_Prop.classic, functional_extensionality_dep; the "
         "check fails on any other assumption. Known finding (open): flint on ints not representable as doubles."),
 "C16": dict(
    text="Proof (static clause): every LOAD_GLOBAL / module-level LOAD_NAME of every code object of the package, regenerated "
         "from the bytecode on every run, refers to a name bound in its module or builtins (kernel-checked finite "
         "computation). Dynamic clauses, on the reader model of C14: read_pil of any list of well-shaped lines in any good session "
         "never ends in an interpreter-level fault kind (NameError, TypeError, AttributeError, IndexError, KeyError, "
         "UnboundLocalError, ValueError, ZeroDivisionError, OverflowError), ignored reactions go to `other` and the read "
         "continues, a failed read leaves every held object alive and registered; and every token list the PEG interpreter "
         "can return on the regenerated grammar is well-shaped (C16_grammar_shape), so the hypothesis holds for everything "
         "read_pil can receive. Partial: model-level outcome kinds (OutOfFuel/BadRequest/Unmodelled) are not excluded by a "
         "theorem. Lengths of any size (0, above sys.maxsize) are inside the model after the repairs 456c169 / 19f1c7b of two "
         "defects this check and C04 had found; the two documents are read on every run. "
         "Every run also executes 40 kinds of single-fault corruptions of generated documents and token-level mutations "
         "against the implementation and reports any undeclared exception with the document as replay.",
    design="DESIGN.md 7 (C16)", technique="Coq proof over the regenerated global-reference table and on the reader model; fault streams on the implementation as support"),
 "C10": dict(
    text="Proof: for every kind (complexes/strands, macrostates, reactions over complexes and over macrostates, domains) the "
         "operators computed from canonical forms are coherent: == iff equal canonical forms, equal objects hash equally for "
         "ANY hash function of the canonical form, != is the negation, <= is total and transitive, < transitive and "
         "irreflexive, the four order operators are mutually consistent, == iff equivalence (lexicographic orders built "
         "with good_lex/good_pair over code-point strings). sorted() of objects ordered this way lists the same sequence of "
         "canonical forms for every arrangement of the input, is an ascending permutation of it and stable (objects with one "
         "canonical form, e.g. from different subclass registries, keep their input order); min()/max() are its ends "
         "(no assumption that the key is injective). The model is tied to the code by running the six operators, "
         "hash(), set() and sorted() on real objects from generated populations (three registries, structure-only and "
         "type-only differences, families of indexed names) and comparing with the model evaluated on the canonical forms the "
         "objects report; sorted()/min()/max() of several arrangements of 3-6 live objects are compared with the model's stable sort. "
         "Partial: read-only attributes and copied views are runtime behaviour, observed on every run, not a theorem.",
    design="DESIGN.md 7 (C10)", technique="Coq proof (total-order laws for lexicographic comparisons) + model/implementation correspondence"),
 "C11": dict(
    text="Proof: MacrostateS / ReactionS identifiers (stable insertion sort by canonical form = sorted(key=...)) are invariant "
         "under every permutation of the arguments given the singleton invariant on the members (Permutation l l' -> same "
         "canonical form, name, stored members), members are stored sorted, the automatic macrostate name is that of the "
         "canonically smallest member, the representative carries the requested name, equal canonical forms imply equal "
         "member multisets and type. Tied to the code by creating the same macrostate/reaction in two permutations on real "
         "objects (identity, canonical form, names, arity, len) and comparing with the model.",
    design="DESIGN.md 7 (C11)", technique="Coq proof (sorted permutation uniqueness) + model/implementation correspondence"),
 "C12": dict(
    text="Proof: for every kernel tree over legal names (any nesting, strands, empty loops) the reader's resolve_kernel_loops "
         "applied to the token list of the tree returns exactly the tree's (sequence, structure) with the closing domains "
         "synthesised as complements, and kernel_string writes exactly the tree's token texts (induction on trees, no bound); "
         "every aligned, well-formed, domain-level-complementary (sequence, structure) with non-empty strands is the flattening "
         "of such a tree and conversely (both missing guards refuted with witnesses); and the whole chain kernel_string -> "
         "PEG parse of the regenerated grammar -> resolve_kernel_loops returns exactly (sequence, structure) for all names over "
         "the identifier alphabet, with the parser's own default fuel (C12_kernel_roundtrip: nothing left partial). The complete chain kernel_string -> Gallina PEG parse of the "
         "regenerated grammar -> resolve_kernel_loops is run against the implementation's chain on all structures up to a "
         "length bound and random deep ones, and the object-level round trip (every rotation, identical singleton) is "
         "executed on the implementation.",
    design="DESIGN.md 7 (C12)", technique="Coq proof (induction on kernel trees) + model/implementation correspondence of the whole chain"),
 "C02": dict(
    text="Proof (on top of the rotation theory of C07: rotate_complex_once^n = id, bijective on well-formed aligned pairs): "
         "ComplexS.identifiers for a request none of whose rotations is registered is total on good input, its canonical "
         "form is a rotation of the input and <= every rotation in the order (names tuple, structure tuple) by code points, "
         "turns counts the rotations from the canonical form back to the input, the canonical form is the same for every "
         "rotation of the input, and two good descriptions share a canonical form only if one is a rotation of the other. "
         "Unbounded (induction / group argument), including identical strands and rotational symmetry. Registry level (on "
         "the machine of C01, invariant ROK preserved along every history of well-formed requests): all n rotations of a live "
         "complex are registered and bound to it; a request of ANY rotation leaves the state unchanged and is answered "
         "Returned (own name) / SingletonError with existing = that object (no or fresh name) / SingletonError without "
         "existing (name bound to another live object), never Created; the canonical form stored in a created object equals "
         "the one computed with an empty registry. Orbits are also presented to the implementation in random order on every run.",
    design="DESIGN.md 5, 7 (C02)", technique="Coq proof (orbit of rotate_complex_once, minimality by sorted insertion) + model/implementation correspondence"),
 "C20": dict(
    text="Proof: the legacy DSD_Complex canonical-form search (in-place rotation, first-occurrence table, memory check) "
         "returns exactly the canonical form of the current API on every well-formed aligned input; with a complex "
         "registered, a request is reported as DSDDuplicationError exactly when it is rotation-equivalent (i.e. when the "
         "current API would resolve it to the existing object); the rotation distance the legacy object records denotes what "
         "`ComplexS.turns` denotes (that many turns of the common canonical form give the presented representation, and it is "
         "smaller than the number of strands; the distance reported with a duplicate, wrapped into 0..size-1, is the number of turns "
         "from the registered representation to the requested one and `existing` is the registered object; distances are also compared as representations on every run); the legacy SequenceConstraint complements (tables "
         "regenerated from its behaviour on every run) agree with iupac_utils on sequences of every length wherever both "
         "are defined. Pair table, loop index, kernel string, size, connectivity, exterior/enclosed domains and split "
         "components of the legacy objects are tied by correspondence to the same model functions as the current API "
         "(C06/C08/C09) and compared directly between the two implementations on every run, as are whole histories of creation requests (explicit and automatic names, rotations, refused requests in between) through both registries.",
    design="DESIGN.md 7 (C20)", technique="Coq proof (orbit argument on the legacy rotation loop; regenerated legacy tables) + correspondence of both object models"),
 "C03": dict(
    text="Proof: invariant ViewOK on the object state machine (stored representation = turns-th rotation of the canonical "
         "form, 0 <= turns < n, every populated cache holds the function of the CURRENT representation): established by "
         "construction, preserved by every operation and hence along every history of turns assignments and queries; "
         "`turns = v` for any integer v yields turns = v mod n, unchanged canonical form, the v-th rotation and empty caches; "
         "the observation of every view after any history equals that of a freshly built object at the same rotation, and "
         "each view is given explicitly as a function of the current (sequence, structure). Tied to the code by comparing "
         "every observation of random and exhaustive (query, assign, query) histories on real ComplexS objects.",
    design="DESIGN.md 7 (C03)", technique="Coq proof (state-machine invariant by induction over operation lists, on the rotation theory) + model/implementation correspondence"),
 "C07": dict(
    text="Proof, for every well-formed aligned (sequence, structure) pair with no size bound: rotate_complex_once succeeds and "
         "returns a well-formed aligned pair with the strands cyclically shifted and content unchanged; its pair table is the "
         "shifted table relabelled by (si,di) -> ((si+n-1) mod n, di), also stated pointwise on loci; n applications are the "
         "identity; the map is a bijection preserving the strand count; rotate_pairtable_loc is that relabelling, additive in "
         "the turn count with period n; rotate_complex_pt's step is the inverse relabelling; for non-empty strands "
         "ComplexS.rotate()/rotate_pt() (turns=None) yield exactly the n rotations starting with the current one, and "
         "rotate_complex_pt/rotate_complex_db yield the same n with k-th element = the ((n-k) mod n)-th. The proof "
         "characterises the literal scan/flip loops on the zipper text A0(A1(..Ak+B0)..)Bk. With an explicit turn count t (any "
         "int) rotate_complex_pt/rotate_complex_db yield max(t,0) elements, the k-th carrying rcount(t,n,k) steps (k+1 for "
         "t<n; for t>=n the level turns=n is skipped, so elements t-n-1 and t-n coincide), periodic with period n, and t=n is "
         "exactly the turns=None enumeration; ComplexS.rotate/rotate_pt(t) yield max(t,1) elements, the k-th being the k-fold "
         "rotation; proved for every t, the naive 'k-th = k-fold' reading of the utility family is refuted by a witness. "
         "'Inputs not modified' is not expressible in the functional model: it is observed by the correspondence (deep-copy "
         "guards) and by calling every operation again after earlier calls on related arguments in the same process. Model "
         "tied to the code by differential runs of all operations on every well-formed structure of length <= 8 (quick) / 10 "
         "(thorough) with generated domains, random complexes up to 60 strands / depth 100, single, disconnected and "
         "symmetric complexes, explicit turn counts of every kind, and mutated inputs.",
    design="DESIGN.md 5, 7 (C07)", technique="Coq proof (zipper decomposition of Dyck trees, track/entry-list relabelling, induction) + model/implementation correspondence"),
 "C08": dict(
    text="Proof, all well-formed structures, no size bound: make_loop_index (both modes) returns the pre-order loop "
         "decomposition and the break-loop list; it raises SecondaryStructureError exactly when the strand graph (independent "
         "inductive definition, base pairs as edges) is disconnected, proved in both directions; position-wise reading: shape, "
         "k-th opening bracket carries k+1, partners equal, unpaired positions get the innermost enclosing pair, a break's "
         "loop is the innermost spanning pair; is_connected, get_loop_index, exterior/enclosed domains and "
         "is_domainlevel_complement are characterised as pure functions of (sequence, structure). Tie: exhaustive "
         "differential runs for length <= 8 quick / 10 thorough, random structures up to 60 strands / depth 100, damaged "
         "pair tables, ill-formed and misaligned objects, the five object views called in random order.",
    design="DESIGN.md 5, 7 (C08)", technique="Coq proof (machine simulation on Dyck trees, loop-tree inductions) + model/implementation correspondence"),
 "C09": dict(
    text="Proof, all well-formed structures: the strands of the parts partition the input, in increasing original order, content "
         "unchanged; every part's table is the input table restricted and re-indexed (no pair lost, none introduced); every "
         "part is well-formed and connected and is exactly one connectivity class; a connected complex is returned unchanged; "
         "never out of fuel, never an error on well-formed input; the dot-bracket wrapper is characterised. Object level (Split "
         "operation on the registry machine): each yielded object is the registered owner of its component's canonical form "
         "(the live one if it exists, else created), the only possible raise is SingletonError without `existing`, exactly when "
         "the automatic name c<ID> is bound to a live complex that is not the owner — which includes the case where no new "
         "component is needed: 'splitting twice always yields identical objects' is REFUTED with a witness replayed on the "
         "implementation (recorded known finding). Partial: that the computed components are well-formed non-empty complexes "
         "over the source's domains (split_parts_good_full) is a hypothesis of the object-level theorem.",
    design="DESIGN.md 5, 7 (C09)", technique="Coq proof (tree surgery + induction on fuel) + model/implementation correspondence"),
 "C01": dict(
    text="Proof: the registry invariant RegOK (registry values are live objects of exactly that class under their name / their "
         "registered keys, no key bound twice, every live object registered under both keys, hence one live object per name "
         "and per canonical form) holds initially and is preserved by every step of every operation of all five classes "
         "incl. subclasses and failing constructors, by induction over histories; a consistent request returns the object; "
         "every refused request (any error kind) leaves slots, registries and live objects unchanged up to dead temporaries "
         "and `existing` is a live canon owner; a name-only request is a pure lookup; counters move only on Created / failing "
         "user constructor. Tie: differential correspondence of whole histories (depth-3 exhaustive per class, random over a "
         "zoo of 25 classes), every step compared (outcome, existing, identities, both registries, attributes, counters, "
         "weakref liveness); counters move by exactly +1 of the addressed class and only on Created / failing user constructor. "
         "Name-only for domains is proved for names with an unstarred base and refuted for double-starred names (same family "
         "as the recorded C04 finding).",
    design="DESIGN.md 6, 7 (C01)", technique="Coq proof (invariant by induction over operation lists on a heap/registry state machine) + model/implementation correspondence for histories"),
 "C04": dict(
    text="Proof: complementary domains of one class have equal lengths in every reachable state, for arbitrary class "
         "constants and every explicit length (zero and negative included, after the repair 456c169 of the zero-length defect "
         "this check had found) and names with an unstarred base; the model refutes the statement for double-starred names "
         "(witness replayed on the implementation on every run, recorded known finding); ~d is never refused; what ~d "
         "returns has toggled name / same length / same class and ~~d is d; dtype rules exact; contradictory dtype/length "
         "refused without change. Tie: every history of depth 4 (quick) / 5 (thorough) over a small alphabet, subclasses with "
         "changed constants, random long histories.",
    design="DESIGN.md 6, 7 (C04)", technique="Coq proof (nested-call specification by induction on fuel, invariant over histories) + correspondence (depth-4/5 exhaustive)"),
 "C05": dict(
    text="Proof on the abstract heap graph of the registry machine: in every reachable state live <=> reachable from a user "
         "slot through strong children <=> registered; no loss; after a drop exactly what the remaining slots reach survives "
         "and the rest has no registry entry left, so its name and canonical form can be redefined; refused requests, queries "
         "and turns assignments retain nothing. Partial by nature: that CPython frees at reference count zero, that weak "
         "dictionary callbacks fire and that no C-level or traceback reference survives are runtime facts observed per step "
         "(weakref liveness with gc disabled, held-then-dropped exceptions, split/rotate/lazy-cache queries by the oracle); "
         "the release of a whole read_pil result after one gc pass is executed on generated systems on every run.",
    design="DESIGN.md 6, 7 (C05)", technique="Coq proof (reachability sweep on the heap model, induction over histories) + weakref liveness correspondence"),
 "C13": dict(
    text="Proof on a Gallina PEG interpreter (transcription of pyparsing 3.3 _parseNoCache/preParse/ignorables) over the node "
         "table regenerated on every run from the runtime element graph: a document parses to the concatenation of its "
         "statements' parses; the result is independent of fuel and of everything but table and text; parsing a file is "
         "parsing its content; round trip parse(render t) = [t] for every name, number, list length, nesting depth and "
         "blank/comment/line-end layout of dl-domain, sl-domain, strand/sup-sequence, macrostate, both strand-complex forms, "
         "reaction without rate box, kernel complex without concentration; rejection of a missing assignment sign and of a "
         "malformed number, of an unmatched ')' and of a detached '('; the default fuel suffices for every text (termination "
         "checker proved sound and run on the regenerated table: no left recursion, no nullable loop), so every theorem "
         "holds for parse_pil as run; no_skipped_text (every character of an accepted text is a terminal, a line end, a "
         "comment or skipped blanks); token-language soundness; reaction rate box and kernel concentration round trips; "
         "missing-name rejection REFUTED (`length = 5`, known finding). Also proved: the round trips for layouts with tabs (parse_pil's expandtabs step included) for every kind, with the guard that no blank or tab follows the dot-bracket of a strand-notation complex (the grammar absorbs it into the token; the property compares that token up to blanks), and rejection of an attached unclosed '(' at any nesting when the statement is the last one. Not proved: the rejection theorems for texts containing tabs. "
         "All of it, plus files and parser histories, is compared with pyparsing and evaluated on the implementation on "
         "every run.",
    design="DESIGN.md 7 (C13)", technique="Coq big-step rules derived from a fuelled PEG interpreter + regenerated grammar table + differential correspondence with pyparsing"),
 "C14": dict(
    text="Proof about a Gallina model of read_pil / read_pil_line over the registry machine (Hoare logic over a state/exception "
         "monad, under the session invariant): a line read alone is the line in a document; `ignore` skips statement kinds; "
         "the complement sequence is the reverse WC complement; the domains field is exact for any well-shaped document in any "
         "order; per statement: strands, reaction type / filing / rate / units, kernel complex name / class / concentration; "
         "no interpreter-level fault; failed reads keep held objects; configured classes; and the assembled statement: every "
         "consistent system (domains with lengths or sequences, strands, complexes in kernel notation incl. composite names and "
         "their complements and concentrations, strand notation, macrostates, reactions of every type), in ANY "
         "declaration-respecting order, read in a fresh session, is never refused, every statement has built exactly its "
         "objects (complexes with exactly the denoted sequence/structure and the minimal rotation as canonical form, members "
         "are the identical registered singletons), the keys of every dictionary are exactly the declared names and `other` "
         "is the list of the remaining lines; consistency is a computation evaluated to True on every generated system. "
         "the same assembled statement with `ignore` (side condition: the kept statements form a consistent system) and for "
         "sessions that already hold objects (session described by a statement list, compatibility = the computation session_from: "
         "never refused, every declared name maps to the HELD object, a re-declared live complex carries the newly declared "
         "concentration, nothing else is touched; two reads in sequence as a corollary). Partial (reader_builds_session_partial): "
         "re-declarations that change a sequence or a rate constant, a strand-notation complex re-declared with a concentration, "
         "held objects that no statement describes; the sorted view of the "
         "dictionary is compared with the generator's expected system through the whole-reader correspondence (text -> "
         "Gallina PEG parse -> reader model vs read_pil) on generated systems in every notation, order and layout, on all "
         "<=3-statement documents over a pool, and on the C16 fault streams.",
    design="DESIGN.md 7 (C14)", technique="Coq proof (Hoare logic over a state/exception monad on the registry model; regenerated tables) + model/implementation correspondence of the whole reader"),
 "C15": dict(
    text="Proof: frame theorem per class (an operation on class A leaves registries and own ID of every other class untouched, "
         "created objects belong to the class called), failing user constructors never create and leave no trace, registry "
         "values have exactly the class of the registry; reader: in sessions satisfying the session invariant every object "
         "the reader creates is an instance of exactly the configured class of its kind and every registry holds only its own "
         "class; REFUTED in mixed sessions (known finding, replayed on every run). Tie: histories over a zoo of 25 classes "
         "(direct, sub-sub, siblings, changed constants, failing before/after super().__init__).",
    design="DESIGN.md 6, 7 (C15)", technique="Coq proof (frame property of the registry machine, reader session invariant) + correspondence over the subclass zoo"),
 "C19": dict(
    text="Proof on the same PEG interpreter over the regenerated seesaw node table: documents parse to the concatenation of "
         "their statements, fuel independence, file = content, round trips of reporter and INPUT statements and of wires for "
         "all numbers and layouts, of OUTPUT (wire and Fluor), seesaw, the three conc forms in both argument orders, inputfanout, "
         "seesawOR and seesawAND; rejection of an input bound to a fluorophore, of negative concentrations and of wrong "
         "reporter arguments; the default fuel suffices for every text; no_skipped_text; one argument-fault rejection per "
         "statement kind (seesaw without its list, OUTPUT with an extra argument, non-numeric fan-out, conc without / with a negative "
         "number in both argument orders, seesawOR/AND with too few arguments), for all numbers, names, list lengths and blank "
         "layouts. Not proved: faults outside these families (deleted brackets, swapped kinds inside lists). The whole negative family is compared with pyparsing and evaluated on the "
         "implementation on every run.",
    design="DESIGN.md 7 (C19)", technique="Coq big-step rules from the fuelled PEG interpreter + regenerated grammar table + differential correspondence with pyparsing"),
}

NOT_YET = {}

def main():
    props = [json.loads(l) for l in open(os.path.join(VERIF, "properties.jsonl"))]
    checks, na = [], []
    for p in props:
        pid = p["id"]
        if pid in CHECKS:
            c = CHECKS[pid]
            checks.append({
                "property_id": pid,
                "quick_cmd": f"./check {pid} quick",
                "thorough_cmd": f"./check {pid} thorough",
                "evidence_file": f"evidence/{pid}.json",
                "replay_cmd_template": f"./check {pid} --replay {{path}}",
                "engine": "coq-model",
                "level_claimed": {"category": "proof", "text": c["text"], "design_ref": c["design"]},
                "level_note": c.get("note", BASE_NOTE),
                "technique": c["technique"],
            })
        else:
            na.append({"property_id": pid,
                       "reason": NOT_YET.get(pid, "not claimed yet: model and theorems for this property are still being built (see DESIGN.md 7); the technique applies")})
    man = {
        "version": 1,
        "setup_cmd": "./setup.sh",
        "hooks": {"guard": "DSDOBJECTS_VERIF", "enable": "none needed: the checks observe the public API only; "
                  "DSDOBJECTS_VERIF=1 is set for every implementation subprocess",
                  "baseline_off_cmd": "cd /repo && /venv/bin/python -m pytest -ra -q -p no:cacheprovider --timeout=900 --continue-on-collection-errors",
                  "source_commits": [], "add_only": True},
        "engines": [{"name": "coq-model", "path": "coq/", "serves_properties": sorted(CHECKS),
                     "kind_free_text": "Gallina model + theorems (coqc 8.16.1), regenerated tables, extracted OCaml model runner, Python correspondence harness"}],
        "checks": checks,
        "not_applicable": na,
        "notes": "See DESIGN.md. Known findings: known_findings.json. Self-tests: selftest/run.py --all.",
    }
    open(os.path.join(VERIF, "MANIFEST.json"), "w").write(json.dumps(man, indent=1) + "\n")

if __name__ == "__main__":
    main()
