"""Writes /verif/MANIFEST.json from the table below (kept in one place so that the
manifest stays valid while properties are added)."""
import json, os, sys
VERIF = os.path.dirname(os.path.dirname(os.path.abspath(__file__)))

BASE_NOTE = ("Trusted: Coq 8.16.1 kernel (vm_compute used, no native_compute, no axioms declared; Print Assumptions "
             "checked on every run), the translators harness/gen_*.py, extraction (ExtrOcamlBasic only) + "
             "extract/driver.ml, the correspondence harness, CPython/pyparsing as the executed implementation. "
             "Theorems are about the Gallina model; the tie to /repo is re-established on every run by regenerated "
             "tables and by differential correspondence on generated inputs.")

CHECKS = {
 "C06": dict(
    text="Proof: make_pair_table accepts exactly the well-formed strings and rejects all others with "
         "SecondaryStructureError; the table is a symmetric, fixpoint-free, properly nested pairing and "
         "pair_table_to_dot_bracket returns the original string; strand-table split/join are inverse in both "
         "directions (list and string form, any break character). All by induction, no size bound. The model "
         "is tied to the code by exhaustive (length<=7 quick / 9 thorough over '().+x') and random differential "
         "runs of every modelled function, including rotate_complex_once on ill-formed input.",
    design="DESIGN.md 5, 7 (C06)", technique="Coq proof (induction on Dyck trees) + model/implementation correspondence"),
 "C17": dict(
    text="Proof: the complement tables regenerated from the code on every run are set-exact against the IUPAC "
         "bit-mask specification for all 15 codes x 2 materials (kernel-checked finite computation), lifted to "
         "sequences of every length by induction (Forall2), reverse variants, involution, DNA/RNA T<->U, and "
         "add_constraints = position-wise intersection / ConstraintError iff some intersection is empty.",
    design="DESIGN.md 7 (C17)", technique="Coq proof over regenerated tables (vm_compute on finite domain, induction for sequences) + correspondence"),
 "C18": dict(
    text="Proof: over the unit tables regenerated from the code on every run: every generated scale is the ideal decimal "
         "value (ints) or the double nearest to it; every rate unit the grammar accepts is known to convert_units in the "
         "right family; families are disjoint; the float-level model (Python int/float semantics on PrimFloat, "
         "correctly rounded int->float and int/int) answers unknown units with ValueError, mixed families with an "
         "exception, and returns a number only within one family; exact rational layer: identity, composition, "
         "inversion, one inverse factor per unit for rate constants and round trip; flint on every finite float returns a "
         "numerically equal value, an int exactly when integral (no axioms), ints up to 2^53 are returned unchanged, the "
         "big-int deviation is proved as a refutation (known finding); convert_units on floats is within 3*2^-53 of the "
         "exact conversion whenever the intermediates stay in the normal range (Flocq bridge), and the unconditional bound "
         "is refuted for subnormal underflow. Model tied to the code bit-exactly (vm_compute inside Coq vs Python through mantissa/exponent) on "
         "all unit pairs x values over 600 decades, huge ints, rate units of arity 1-3.",
    design="DESIGN.md 7 (C18)", technique="Coq proof over regenerated tables + rational algebra; PrimFloat model evaluated by vm_compute, bit-exact correspondence",
    note=BASE_NOTE + " PrimFloat/PrimInt63 kernel primitives appear in Print Assumptions (not axioms of this development). "
         "The float error-bound theorems and C18_flint_small_int depend on standard-library axioms only: FloatAxioms (mul_spec, "
         "div_spec, eqb_spec, abs_spec, SF2Prim_Prim2SF, Prim2SF_valid, Prim2SF_SF2Prim) and, through Flocq/Reals, "
         "ClassicalDedekindReals.sig_not_dec, sig_forall_dec, Classical_Prop.classic, functional_extensionality_dep; the "
         "check fails on any other assumption. Known finding (open): flint on ints not representable as doubles."),
 "C16": dict(
    text="Proof (static clause): every LOAD_GLOBAL / module-level LOAD_NAME of every code object of the package, regenerated "
         "from the bytecode on every run, refers to a name bound in its module or builtins (kernel-checked finite "
         "computation). Partial: the dynamic clauses (no interpreter-level fault from read_pil, ignored reactions survive, "
         "failed reads leave held objects valid) are not yet theorems about a reader model; every run executes "
         "single-fault corruptions of generated documents (30 fault kinds) and token-level multi-fault mutations against "
         "the implementation and reports any undeclared exception as a violation with the document as replay.",
    design="DESIGN.md 7 (C16)", technique="Coq proof over the regenerated global-reference table; fault-stream exploration of the reader as support"),
 "C10": dict(
    text="Proof: for every kind (complexes/strands, macrostates, reactions over complexes and over macrostates, domains) the "
         "operators computed from canonical forms are coherent: == iff equal canonical forms, equal objects hash equally for "
         "ANY hash function of the canonical form, != is the negation, <= is total and transitive, < transitive and "
         "irreflexive, the four order operators are mutually consistent, == iff equivalence (lexicographic orders built "
         "with good_lex/good_pair over code-point strings). The model is tied to the code by running the six operators, "
         "hash(), set() and sorted() on real objects from generated populations (three registries, structure-only and "
         "type-only differences) and comparing with the model evaluated on the canonical forms the objects report. "
         "Partial: read-only attributes and copied views are runtime behaviour, observed on every run, not a theorem.",
    design="DESIGN.md 7 (C10)", technique="Coq proof (total-order laws for lexicographic comparisons) + model/implementation correspondence"),
 "C11": dict(
    text="Proof: MacrostateS / ReactionS identifiers (stable insertion sort by canonical form = sorted(key=...)) are invariant "
         "under every permutation of the arguments given the singleton invariant on the members (Permutation l l' -> same "
         "canonical form, name, stored members), members are stored sorted, the automatic macrostate name is that of the "
         "canonically smallest member, the representative carries the requested name, equal canonical forms imply equal "
         "member multisets and type. Tied to the code by creating the same macrostate/reaction in two permutations on real "
         "objects (identity, canonical form, names, arity, len) and comparing with the model.",
    design="DESIGN.md 7 (C11)", technique="Coq proof (sorted permutation uniqueness) + model/implementation correspondence"),
 "C12": dict(
    text="Proof: for every kernel tree over legal names (any nesting, strands, empty loops) the reader's resolve_kernel_loops "
         "applied to the token list of the tree returns exactly the tree's (sequence, structure) with the closing domains "
         "synthesised as complements, and kernel_string writes exactly the tree's token texts (induction on trees, no bound). "
         "Partial: that every well-formed domain-level-complementary complex is such a tree, and that the PEG parser returns "
         "the tree's token list on its rendering, are not proved; the complete chain kernel_string -> Gallina PEG parse of the "
         "regenerated grammar -> resolve_kernel_loops is run against the implementation's chain on all structures up to a "
         "length bound and random deep ones, and the object-level round trip (every rotation, identical singleton) is "
         "executed on the implementation.",
    design="DESIGN.md 7 (C12)", technique="Coq proof (induction on kernel trees) + model/implementation correspondence of the whole chain"),
 "C02": dict(
    text="Proof (on top of the rotation theory of C07: rotate_complex_once^n = id, bijective on well-formed aligned pairs): "
         "ComplexS.identifiers for a request none of whose rotations is registered is total on good input, its canonical "
         "form is a rotation of the input and <= every rotation in the order (names tuple, structure tuple) by code points, "
         "turns counts the rotations from the canonical form back to the input, the canonical form is the same for every "
         "rotation of the input, and two good descriptions share a canonical form only if one is a rotation of the other. "
         "Unbounded (induction / group argument), including identical strands and rotational symmetry. The registry-level "
         "clause (a rotation of a live complex resolves to that object) is exercised on the implementation on every run "
         "(orbits presented in random order, named/unnamed/other-named) and belongs to the registry machine of C01.",
    design="DESIGN.md 5, 7 (C02)", technique="Coq proof (orbit of rotate_complex_once, minimality by sorted insertion) + model/implementation correspondence"),
 "C20": dict(
    text="Proof: the legacy DSD_Complex canonical-form search (in-place rotation, first-occurrence table, memory check) "
         "returns exactly the canonical form of the current API on every well-formed aligned input; with a complex "
         "registered, a request is reported as DSDDuplicationError exactly when it is rotation-equivalent (i.e. when the "
         "current API would resolve it to the existing object); the legacy SequenceConstraint complements (tables "
         "regenerated from its behaviour on every run) agree with iupac_utils on sequences of every length wherever both "
         "are defined. Pair table, loop index, kernel string, size, connectivity, exterior/enclosed domains and split "
         "components of the legacy objects are tied by correspondence to the same model functions as the current API "
         "(C06/C08/C09) and compared directly between the two implementations on every run.",
    design="DESIGN.md 7 (C20)", technique="Coq proof (orbit argument on the legacy rotation loop; regenerated legacy tables) + correspondence of both object models"),
 "C03": dict(
    text="Proof: invariant ViewOK on the object state machine (stored representation = turns-th rotation of the canonical "
         "form, 0 <= turns < n, every populated cache holds the function of the CURRENT representation): established by "
         "construction, preserved by every operation and hence along every history of turns assignments and queries; "
         "`turns = v` for any integer v yields turns = v mod n, unchanged canonical form, the v-th rotation and empty caches; "
         "the observation of every view after any history equals that of a freshly built object at the same rotation, and "
         "each view is given explicitly as a function of the current (sequence, structure). Tied to the code by comparing "
         "every observation of random and exhaustive (query, assign, query) histories on real ComplexS objects.",
    design="DESIGN.md 7 (C03)", technique="Coq proof (state-machine invariant by induction over operation lists, on the rotation theory) + model/implementation correspondence"),
}

NOT_YET = {}

def main():
    props = [json.loads(l) for l in open(os.path.join(VERIF, "properties.jsonl"))]
    checks, na = [], []
    for p in props:
        pid = p["id"]
        if pid in CHECKS:
            c = CHECKS[pid]
            checks.append({
                "property_id": pid,
                "quick_cmd": f"./check {pid} quick",
                "thorough_cmd": f"./check {pid} thorough",
                "evidence_file": f"evidence/{pid}.json",
                "replay_cmd_template": f"./check {pid} --replay {{path}}",
                "engine": "coq-model",
                "level_claimed": {"category": "proof", "text": c["text"], "design_ref": c["design"]},
                "level_note": c.get("note", BASE_NOTE),
                "technique": c["technique"],
            })
        else:
            na.append({"property_id": pid,
                       "reason": NOT_YET.get(pid, "not claimed yet: model and theorems for this property are still being built (see DESIGN.md 7); the technique applies")})
    man = {
        "version": 1,
        "setup_cmd": "./setup.sh",
        "hooks": {"guard": "DSDOBJECTS_VERIF", "enable": "none needed: the checks observe the public API only; "
                  "DSDOBJECTS_VERIF=1 is set for every implementation subprocess",
                  "baseline_off_cmd": "cd /repo && /venv/bin/python -m pytest -ra -q -p no:cacheprovider --timeout=900 --continue-on-collection-errors",
                  "source_commits": [], "add_only": True},
        "engines": [{"name": "coq-model", "path": "coq/", "serves_properties": sorted(CHECKS),
                     "kind_free_text": "Gallina model + theorems (coqc 8.16.1), regenerated tables, extracted OCaml model runner, Python correspondence harness"}],
        "checks": checks,
        "not_applicable": na,
        "notes": "See DESIGN.md. Known findings: known_findings.json. Self-tests: selftest/run.py --all.",
    }
    open(os.path.join(VERIF, "MANIFEST.json"), "w").write(json.dumps(man, indent=1) + "\n")

if __name__ == "__main__":
    main()
