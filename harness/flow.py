"""The decision procedure shared by all checks (DESIGN.md section 3)."""
import json
from common import prove, ensure_model_runner, proof_broken_payload, enc


def diff_payload(d):
    k, rq, a, b = d
    return {"broken": "correspondence", "op": rq[0], "arg": rq[1], "arg_wire": enc(rq[1]),
            "model": repr(a), "implementation": repr(b)}


def conclude(ctx, res, runner, diffs, search, replay_hint=""):
    """res: result of prove(); runner: BuildResult of the model runner (or None when the
    property has no executable-model correspondence); diffs: correspondence disagreements;
    search(diffs) -> list of failing inputs of the property itself, each a dict with
    'key' (for known-findings matching), 'input', 'what', 'snippet'."""
    broken = []
    if not res["ok"]:
        broken.append(proof_broken_payload(res))
    if runner is not None and not runner.ok:
        broken.append({"broken": "model-build", "file": runner.failed_file, "line": runner.failed_line,
                       "coqc_excerpt": runner.excerpt})
    broken.extend(diff_payload(d) for d in diffs[:5])
    ctx.cov["broken_links"] = len(broken)
    if not broken:
        return
    found, seen = [], set()
    for f in search(diffs) or []:
        k = json.dumps(f.get("key"), sort_keys=True, default=str)
        if k not in seen:
            seen.add(k)
            found.append(f)
    counted = 0
    for f in found[:10]:
        payload = dict(f)
        payload["broken_links"] = broken[:3]
        payload["how_to_replay"] = replay_hint or f"./check {ctx.pid} --replay <this file>"
        if ctx.violation("counterexample", payload, found_input=True):
            counted += 1
    if counted == 0:
        unexplained = broken
        if found:
            # every witness is a recorded known finding: the broken link is explained
            # only if nothing else is broken than what those witnesses account for
            unexplained = [b for b in broken if b.get("broken") != "correspondence"]
            if not unexplained:
                return
        ctx.violation("unproved", {"broken_links": unexplained[:5],
                                   "what": "a proof obligation or the model/implementation correspondence "
                                           "no longer checks; no failing input of the property was found",
                                   "names": [b.get("lemma") or b.get("op") or b.get("file") for b in unexplained[:5]]},
                      found_input=False)
