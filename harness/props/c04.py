"""C04 — domain complementarity: involutive, unique, always of equal length."""
import reghist as rh

PARTIAL = [
    'reading PIL text (read_pil) is not part of the histories',
    'CompOK is proved for every reachable state without any guard on lengths or class constants (explicit, default, zero and negative lengths included, since the repair of `elif length and` / len() in DomainS.identifiers); the pair is {x, x*} with x itself unstarred, which the faithful model shows to be necessary',
    "~d is never refused (C04_invert_never_refused) for every length and names with an unstarred, non-empty base; the name '*' (empty base, never creatable) stays outside",
    'the recursion fuel: proved that fuel k+3 suffices for k trailing stars (C04_no_fuel) and that the fuel 8 of `step` suffices for names with at most 5 trailing stars (C04_fuel_suffices); names with 6 or more trailing stars make the model answer OutOfFuel, which the harness counts as a disagreement (generators use at most 2)',
    'the query len(d) for a length above sys.maxsize (OverflowError) is not modelled (DomainS.identifiers itself reads the attribute `length` and no longer calls len())',
]
REFUTED = [
    "C04_CompOK_refuted_for_double_star: DomainS('a**', 7); DomainS('a*', 5) leaves a** and its complement a* live with lengths 7 and 5 (replayed on the implementation; the other creation order is refused)",
]


def batches(ctx):
    rng, quick = ctx.rng, ctx.tier == "quick"
    out = []
    # (i) small scope: every history of the given depth over {a, a*} x lengths x {construct, name-only, ~, drop}
    a1 = rh.dom_alphabet(rh.D, names=("a", "a*"), lengths=(None, 5, 9), dtypes=(None,), invs=((0, 1), (1, 0)))
    out.append(("DomainS/exhaustive-depth-4", rh.all_histories(a1, 4), 3, [rh.D]))
    # zero and negative lengths are lengths like any other (repaired `elif length and` / len() in identifiers)
    az = rh.dom_alphabet(rh.D, names=("a", "a*"), lengths=(None, 0, 5, -2), dtypes=(None,), invs=((0, 1), (1, 0)))
    out.append(("DomainS/zero-negative-exhaustive-depth-3", rh.all_histories(az, 3), 3, [rh.D]))
    if not quick:
        a0 = rh.dom_alphabet(rh.D, names=("a", "a*"), lengths=(None, 5, 9), dtypes=(None,), slots=(0,), invs=((0, 1), (1, 0)))
        a0 += [rh.drop(1), rh.dom(1, rh.D, "a*", None), rh.dom(1, rh.D, "a", 9), rh.dom(1, rh.D, "a*", 5)]
        out.append(("DomainS/exhaustive-depth-5", rh.all_histories(a0, 5), 3, [rh.D]))
    # dtype rules on a class with other constants (DomB: cutoff 4, short 3, long 9, prefix q)
    a2 = rh.dom_alphabet(rh.DB, names=("a", "a*", None), lengths=(None, 3, 9), dtypes=(None, "short", "long"),
                         slots=(0,), invs=((0, 1), (1, 0)))
    a2 += [rh.drop(1), rh.dom(1, rh.DB, "a*", None, None, None), rh.dom(1, rh.DB, "a", 3, None, None)]
    out.append(("DomB/dtype-exhaustive-depth-%d" % (3 if quick else 4), rh.all_histories(a2, 3 if quick else 4), 3, [rh.DB, rh.D]))
    # classes whose default lengths lie on the other side of their cutoff (DomC: cutoff 20 with long = 15; DomD: short = 10
    # with cutoff 8): dtype-only requests receive the class default lengths all the same; lengths at the cut-offs
    for cls_, nm_ in ((rh.DC, "DomC"), (rh.DD, "DomD")):
        a3 = rh.dom_alphabet(cls_, names=("a", "a*", None), lengths=(None, 8, 15, 20), dtypes=(None, "short", "long"),
                             slots=(0,), invs=((0, 1),))
        out.append((f"{nm_}/dtype-exhaustive-depth-2", rh.all_histories(a3, 2), 3, [cls_, rh.D]))
    # (ii) long random histories over all domain classes, larger alphabets, zero / negative lengths, odd names
    n, ln = (400, 40) if quick else (6000, 100)
    hs = [domain_history(rng, ln) for _ in range(n)]
    out.append(("domains/random", hs, 4, [rh.D, rh.DA, rh.DAA, rh.DB, rh.DFB, rh.DFA]))
    return out


def domain_history(rng, length):
    names = ["a", "a*", "b", "b*", None, "d1", "d1*", "q7", "q7*", "a**"]
    ops = []
    for _ in range(length):
        r = rng.random()
        if r < 0.62:
            cls = rng.choice([rh.D] * 5 + [rh.DA, rh.DAA, rh.DB, rh.DB, rh.DFB, rh.DFA])
            name = rng.choice(names) if rng.random() > 0.03 else rng.choice(["", "*", "**"])
            ln = rng.choice([None, None, 3, 5, 5, 9, 15]) if rng.random() > 0.04 else rng.choice([0, -1, 8, 4])
            dt = rng.choice([None, None, None, "short", "long"]) if rng.random() > 0.03 else rng.choice(["", "odd"])
            ops.append(rh.dom(rng.randrange(4), cls, name, ln, rng.choice([None, None, "p", ""]) if name is None else None, dt))
        elif r < 0.77:
            ops.append(rh.inv(rng.randrange(4), rng.randrange(4)))
        elif r < 0.93:
            ops.append(rh.drop(rng.randrange(4)))
        else:
            ops.append(rh.query(rng.randrange(4), rng.choice(["len", "dtype", "name"])))
    return ops


RULE = ("every history of depth 4 over construct{a,a*}x{no length,5,9}, name-only, ~, drop on two slots of DomainS "
        "(thorough: also depth 5 over a 13-letter alphabet); every history of depth 3 over the same operations with lengths {none,0,5,-2}; every history of depth 3/4 over names x lengths x dtypes on DomB (changed class constants); "
        "random histories of length 40/100 over six domain classes (subclasses, failing constructors), larger name "
        "alphabet, zero/negative lengths, empty/odd names and dtypes; compared after every step: outcome, existing, "
        "slot identities, both registries (private dicts and show_singletons), attributes, ID counters, weakref liveness; "
        "distinct = distinct final observable states on which model and implementation agree")


WITNESSES = {
    "C04_CompOK_refuted_for_double_star": [rh.dom(0, rh.D, "a**", 7), rh.dom(1, rh.D, "a*", 5)],
}


def run(ctx):
    # the witness of the refuted statement, replayed on the implementation (information only:
    # the statement is outside the guard of the proved theorem; the integrator decides whether it
    # is recorded as a finding)
    rep = {}
    for name, ops in WITNESSES.items():
        out = rh.run_oracle("c04.py", {"histories": [{"ops": ops, "nslots": 2}], "deep": True})
        rep[name] = {"history": ops, "snippet": rh.snippet(ops, 2),
                     "implementation": [f["what"] for f in out["failures"]] or "not reproduced"}
    # recorded findings (known_findings.json): reported as KNOWN-FINDING while they still reproduce
    for name, r in rep.items():
        if r["implementation"] != "not reproduced":
            ctx.violation("counterexample", {"key": {"witness": name}, "input": r["history"],
                                             "what": "; ".join(r["implementation"])[:500], "snippet": r["snippet"]})
    rh.run_check(ctx, "C04", batches, RULE, partial=PARTIAL, refuted=REFUTED)
    ctx.cov["refuted_witness_replay"] = rep


def replay(data):
    return rh.replay("C04", data)
