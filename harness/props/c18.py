"""C18 — unit and rate-constant conversion."""
import json, math, os
from fractions import Fraction
from common import prove, run_impl, run_oracle, Err, COQ, coq_make, BuildLock
from valfmt import float_me
from coqeval import eval_cases
from flow import conclude

CONC = ["M", "mM", "uM", "nM", "pM"]
TIME = ["days", "hours", "h", "min", "m", "s", "ms", "us", "ns"]
ERR = {1: "KeyError", 2: "ValueError", 3: "OverflowError", 4: "ZeroDivisionError", 5: "ObjectInitError",
       6: "NotImplementedError", 7: "AssertionError", 99: "Other"}
HEADER = ("From Coq Require Import ZArith List.\nFrom DSD Require Import Model.UnitsF.\n"
          "Import ListNotations.\nOpen Scope Z_scope.\n")


def cstr(s):
    return "[" + "; ".join(str(ord(c)) for c in s) + "]%N"


def cnum(v):
    if isinstance(v, int):
        return f"(NI ({v}))"
    m, e = float_me(v)
    return f"(mkf ({m}) ({e}))"


def copt(u):
    return "None" if u is None else f"(Some {cstr(u)})"


def term(rq):
    op, a = rq
    if op == "flint":
        return f"UFlint {cnum(a)}"
    if op == "convert_units":
        return f"UConv {cnum(a[0])} {cstr(a[1])} {cstr(a[2])}"
    if op == "rateformat":
        return f"URate {cnum(a[0])} {copt(a[1])} {a[2]}%nat {cstr(a[3])}"
    if op == "rate_set_get":
        return f"URc ({a[0]}) {cnum(a[1])} {copt(a[2])}"
    if op == "concentrationformat":
        return f"UConv {cnum(a[1])} {cstr(a[2])} {cstr(a[3])}"
    raise ValueError(op)


def decode_model(op, r):
    """flat Z list -> python value comparable with the implementation's result"""
    def num(r):
        if r[0] == 0:
            return r[1], r[2:]
        if r[0] == 1:
            from valfmt import me_float
            return me_float(r[1], r[2]), r[3:]
        return Err(ERR.get(r[1], "Other")), r[2:]
    v, rest = num(r)
    if op == "rate_set_get" and not isinstance(v, Err):
        u = None if rest[0] == -1 else "".join(chr(c) for c in rest[1:1 + rest[0]])
        return [v, u]
    return v


def same(a, b):
    if isinstance(a, Err) or isinstance(b, Err):
        return isinstance(a, Err) and isinstance(b, Err) and a.kind == b.kind
    if isinstance(a, list) and isinstance(b, list):
        return len(a) == len(b) and all(same(x, y) if not isinstance(x, str) and x is not None else x == y for x, y in zip(a, b))
    if type(a) is not type(b):
        return False
    if isinstance(a, float):
        return float_me(a) == float_me(b)
    return a == b


def rand_value(rng):
    k = rng.randrange(9)
    if k == 0:
        return rng.randint(0, 10)
    if k == 1:
        return rng.randint(1, 10 ** rng.randint(1, 40))
    if k == 2:
        return float(rng.randint(0, 10 ** 6))
    if k == 3:
        return rng.uniform(0, 10)
    if k == 4:
        return rng.uniform(0, 1) * 10.0 ** rng.randint(-300, 300)
    if k == 5:
        return rng.choice([0.0, -0.0, 1e308, 5e-324, 2.0 ** 53, 2.0 ** 53 + 2, 1e22, 1e23, 0.1, 123456789.125])
    if k == 6:
        return -rng.uniform(0, 1) * 10.0 ** rng.randint(-30, 30)
    if k == 7:
        return rng.choice([2 ** 53 + 1, 2 ** 60 + 1, -(2 ** 64) - 3, 10 ** 400, 3 * 10 ** 307])
    return math.ldexp(rng.getrandbits(53) | 1, rng.randint(-1074, 970))


def requests(ctx):
    rng, quick = ctx.rng, ctx.tier == "quick"
    reqs = []
    units = CONC + TIME + ["x", "", "Ms", "sec"]
    for a in units:
        for b in units:
            for v in ([1, 2.5] if quick else [1, 2.5, 7, 1e-9, 3e20]):
                reqs.append(("convert_units", [v, a, b]))
    n = 2500 if quick else 60000
    for _ in range(n):
        fam = rng.choice([CONC, TIME])
        a, b = rng.choice(fam), rng.choice(fam)
        if rng.random() < 0.05:
            b = rng.choice(units)
        reqs.append(("convert_units", [rand_value(rng), a, b]))
    for _ in range(n // 5):
        reqs.append(("flint", rand_value(rng)))
    for v in [math.inf, -math.inf, 0.0, -0.0, 1e300, 2 ** 53, 2 ** 53 + 1, 2 ** 1024, -2 ** 2000, 0.5, 1.0, -3.0, 1e15 + 0.5]:
        reqs.append(("flint", v))
    # rate constants: arity 1..3, every combination of accepted concentration and time units
    gt = ["s", "m", "h"]
    combos = []
    for n_r in (1, 2, 3):
        for t1 in gt:
            for t2 in gt:
                cs = [[rng.choice(CONC) for _ in range(n_r - 1)] for _ in range(2 if quick else 6)] + [["M"] * (n_r - 1)]
                for c1 in cs:
                    for c2 in ([["M"] * (n_r - 1), [rng.choice(CONC) for _ in range(n_r - 1)]]):
                        combos.append((n_r, "".join("/" + c for c in c1) + "/" + t1, "".join("/" + c for c in c2) + "/" + t2))
    for (n_r, u, out) in combos:
        reqs.append(("rateformat", [rand_value(rng), u, n_r, out]))
    for _ in range(100 if quick else 2000):
        n_r = rng.randint(1, 3)
        u = rng.choice([None, "/s", "/M/s", "/M/M/s", "/x/s", "M/s", "/M/", "/nM/h", "/uM/pM/m", "//s"])
        out = rng.choice(["/s", "/M/s", "/mM/m", "/nM/nM/h", "/x/s", "/M/x", "s", ""])
        reqs.append(("rateformat", [rand_value(rng), u, n_r, out]))
    for _ in range(150 if quick else 3000):
        form = rng.choice([0, 0, 1, 1, 2, 2, 2, 3, 4])
        reqs.append(("rate_set_get", [form, rand_value(rng), rng.choice([None, "/M/s", "/s", "whatever"])]))
    for _ in range(150 if quick else 3000):
        reqs.append(("concentrationformat", [rng.choice(["initial", "constant", "i", "c"]), rand_value(rng),
                                             rng.choice(CONC + ["x", "s"]), rng.choice(CONC + ["x", "s"])]))
    # the model has no nan inputs (float('nan') cannot be written in the wire form of ints/floats distinctly) -> keep finite/inf
    return reqs


def run(ctx):
    gen = ctx.gen
    res = prove(ctx)
    if gen.get("gen_units"):
        res["ok"] = False
        res["build"].excerpt = "translator failed (fail-closed): " + gen["gen_units"]
    with BuildLock():
        br = coq_make(["theories/Model/UnitsF.vo"])
    diffs = []
    reqs = []
    if br.ok:
        reqs = requests(ctx)
        model = eval_cases(os.path.join(ctx.work, "cases"), HEADER, [term(r) for r in reqs], jobs=12)
        impl = run_impl(reqs, jobs=8)
        kinds, distinct = {}, set()
        for k, (rq, m, i) in enumerate(zip(reqs, model, impl)):
            mv = decode_model(rq[0], m)
            key = rq[0] + ":" + (i.kind if isinstance(i, Err) else type(i).__name__)
            kinds[key] = kinds.get(key, 0) + 1
            if isinstance(mv, Err) and mv.kind == "Other":
                diffs.append((k, rq, mv, i))
            elif not same(mv, i):
                diffs.append((k, rq, mv, i))
            elif not isinstance(i, Err):
                distinct.add(repr(i))
        ctx.cov["correspondence"]["units(vm_compute)"] = {"cases": len(reqs), "disagreements": len(diffs), "outcomes": kinds,
                                                          "distinct_results": len(distinct)}
        ctx.add_eval(len(reqs), len(distinct), samples=[{"op": reqs[0][0], "arg": reqs[0][1], "model": repr(decode_model(reqs[0][0], model[0])), "impl": repr(impl[0])},
                                                        {"op": reqs[-1][0], "arg": reqs[-1][1], "impl": repr(impl[-1])}])
    ctx.cov["rule"] = ("all ordered unit pairs incl. mixed-family and unknown units; values: small/large ints (to 10^400), "
                       "integral and fractional doubles over 600 decades, extremes, random 53-bit mantissas; rate units of "
                       "arity 1-3 over all accepted time units; model evaluated by vm_compute inside Coq and compared "
                       "bit-exactly through (mantissa, exponent); non-trivial = distinct agreed numeric results")
    ctx.cov["partial"] = ["the float error bound (C18_conv_float_close, _range) is proved for float inputs whose intermediates stay in "
                          "the normal range; it is refuted for products that underflow to subnormals "
                          "(C18_conv_float_close_needs_no_underflow) and not stated for int inputs; outside that range the oracle "
                          "checks the bound per generated case only where the exact result is in range"]
    ctx.cov["stdlib_axioms_used"] = ("C18_int_to_float_small_exact: FloatAxioms.Prim2SF_SF2Prim; C18_conv_float_close/_range: FloatAxioms "
                                     "(mul_spec, div_spec, eqb_spec, abs_spec, SF2Prim_Prim2SF, Prim2SF_valid, Prim2SF_SF2Prim), "
                                     "ClassicalDedekindReals.sig_not_dec, sig_forall_dec, Classical_Prop.classic, "
                                     "FunctionalExtensionality.functional_extensionality_dep (via Flocq / Reals)")

    def search(diffs):
        cases = [{"op": d[1][0], "arg": d[1][1]} for d in diffs[:50]]
        cases += [{"op": r[0], "arg": r[1]} for r in reqs[:6000]]
        out = run_oracle("c18.py", {"cases": cases})
        return [{"key": f["key"], "input": f["case"], "what": f["what"], "snippet": f["snippet"]} for f in out["failures"][:10]]

    class R:      # the float model has no extracted runner
        ok = br.ok
        failed_file, failed_line, excerpt = br.failed_file, br.failed_line, br.excerpt
    # the repaired finding (flint on huge ints) is re-examined on every run; it is reported again if it returns
    out = run_oracle("c18.py", {"cases": [{"op": "flint", "arg": 2 ** 60 + 1}]})
    for f in out["failures"]:
        ctx.violation("counterexample", {"key": f["key"], "input": f["case"], "what": f["what"], "snippet": f["snippet"]})
    conclude(ctx, res, R, diffs, search)


def replay(data):
    inp = data.get("input")
    if not inp:
        print("replay names a broken link only:", json.dumps(data.get("broken_links"))[:2000])
        return 1
    out = run_oracle("c18.py", {"cases": [inp]})
    print(json.dumps(out))
    return 1 if out["failures"] else 0
