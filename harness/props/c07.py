"""C07 — strand rotation is a structure-preserving relabelling."""
import json, os, re
from common import prove, ensure_model_runner, run_oracle, COQ
from corr import correspond, shrink, disagree_one
from flow import conclude
import gen_structs as gs


# ---- input construction (generators only; never used as an oracle) ---------

def tables(seq, s):
    """strand table and pair table of an aligned well-formed (seq, s)"""
    flat, si, di = {}, 0, 0
    for k, c in enumerate(s):
        if c == "+":
            si, di = si + 1, 0
        else:
            flat[k] = (si, di)
            di += 1
    partner = {}
    for i, j in gs.pair_positions(s):
        partner[i], partner[j] = j, i
    stab = [[] for _ in range(s.count("+") + 1)]
    ptab = [[] for _ in range(s.count("+") + 1)]
    for k, c in enumerate(s):
        if c != "+":
            stab[flat[k][0]].append(seq[k])
            ptab[flat[k][0]].append(list(flat[partner[k]]) if k in partner else None)
    return stab, ptab


def case_requests(rng, seq, s, objects=True, explicit=True):
    """every rotation operation on one complex"""
    n = s.count("+") + 1
    sst = list(s)
    reqs = [("rotate_complex_once", [seq, sst]),
            ("rotate_complex_db", [seq, sst])]
    if gs.is_wf(s) and len(seq) == len(s):
        stab, ptab = tables(seq, s)
        reqs.append(("rotate_complex_pt", [stab, ptab, None]))
        if explicit:
            for t in {rng.choice([0, 1, n - 1, n]), rng.choice([n + 1, n + 2, 2 * n, 2 * n + 1]), rng.randrange(0, 2 * n + 2)}:
                if t >= 0:
                    reqs.append(("rotate_complex_pt", [stab, ptab, t]))
            # any Python int (negative included) or None through the explicit-turns model
            reqs.append(("rotate_complex_pt_turns", [stab, ptab, rng.choice([None, -2, -1, 0, 1, n - 1, n, n + 1, 2 * n + 1])]))
    if explicit:
        reqs.append(("rotate_complex_db_turns", [seq, sst, rng.choice([None, -1, 0, 1, n - 1, n])]))
        reqs.append(("rotate_complex_db_turns", [seq, sst, rng.choice([n, n + 1, n + 2, 2 * n, 2 * n + 1, rng.randrange(0, 3 * n + 2)])]))
    if objects:
        reqs.append(("obj_rotate", [seq, sst, None]))
        reqs.append(("obj_rotate_pt", [seq, sst, None]))
        if explicit:
            reqs.append(("obj_rotate", [seq, sst, rng.choice([-1, 0, 1, 2, n - 1, n, n + 1, 2 * n + 1])]))
            reqs.append(("obj_rotate_pt", [seq, sst, rng.choice([0, 1, 2, n - 1, n, n + 1, n + 2, 2 * n, 2 * n + 1, 3 * n + 1])]))
        reqs.append(("obj_rotate_pairtable_loc", [seq, sst, [rng.randrange(-2, n + 3), rng.randrange(0, 9)],
                                                  rng.randrange(-2 * n - 1, 2 * n + 2)]))
        reqs.append(("obj_rotate_pairtable_loc", [seq, sst, [rng.randrange(0, n), rng.randrange(0, 9)], 1]))
    return reqs


NAMES = [("a", "b", "c"), ("a",), ("x", "y", "long_name-1", "d7")]
FORMS = ["tuple", "str", "iter", "gen", "complex"]          # forms of the structure argument besides a list


def build(ctx):
    """-> {batch name: [(request, case)]}, small-scope cases, random cases"""
    rng = ctx.rng
    quick = ctx.tier == "quick"
    L = 8 if quick else 10
    batches = {}
    small = []
    for s in gs.all_wf(L):
        small.append({"seq": gs.seq_for(rng, s, names=rng.choice(NAMES), complementary=rng.random() < 0.8), "sst": s})
    batches["small-scope"] = [(rq, c) for c in small for rq in case_requests(rng, c["seq"], c["sst"])]
    # structured random: many strands, deep nesting, repeated strands, symmetric complexes
    rnd = []
    n_rand = 150 if quick else 3000
    for _ in range(n_rand):
        s = gs.random_wf(rng, rng.choice([10, 30, 80, 200]), p_break=rng.choice([0.03, 0.1, 0.25]))
        while s.count("+") >= 60:
            s = gs.random_wf(rng, 40, p_break=0.1)
        rnd.append({"seq": gs.seq_for(rng, s, names=rng.choice(NAMES)), "sst": s})
    for k in (1, 2, 5, 12, 29):
        s = "(+" * k + "." + "+)" * k                       # 2k+1 strands, path depth k
        rnd.append({"seq": gs.seq_for(rng, s), "sst": s})
        s = "+".join(["(."] * k) + "+" + "+".join([".)"] * k)
        rnd.append({"seq": gs.seq_for(rng, s), "sst": s})
    for k in (1, 10, 100):
        s = "(" * k + ".+." + ")" * k                        # depth k across the break
        rnd.append({"seq": gs.seq_for(rng, s), "sst": s})
        s = "(" * k + "." + ")" * k                          # single strand
        rnd.append({"seq": gs.seq_for(rng, s), "sst": s})
        s = "(" * k + "." + ")" * k + "+." + "+()" * 3       # disconnected
        rnd.append({"seq": gs.seq_for(rng, s), "sst": s})
    for unit in ("(+)", "(.+.)", ".(+).", "((+))"):              # rotationally symmetric, identical strands
        for m in (2, 3, 5):
            s = "+".join([unit.replace("+", ".")] * m)
            rnd.append({"seq": ["+" if c == "+" else "a" for c in s], "sst": s})
            s = "+".join(["(" + "." * 2] * m) + "+" + "+".join([")"] * m)
            rnd.append({"seq": gs.seq_for(rng, s, names=("a",)), "sst": s})
    # distinct strands whose names concatenate to the same text, under structures that repeat per strand
    for sq_, st_ in ((["ab", "c", "+", "a", "bc"], "..+.."), (["ab", "c", "+", "a", "bc"], "((+))"), (["a", "bc", "+", "ab", "c"], "(.+.)"),
                     (["x", "yz", "+", "xy", "z", "+", "x", "yz"], "..+..+.."), (["x", "yz", "+", "xy", "z", "+", "x", "yz"], "(.+..+.)"),
                     (["ab", "c", "+", "a", "bc", "+", "ab", "c", "+", "a", "bc"], "..+..+..+.."),
                     (["d1", "0", "+", "d", "10"], "..+.."), (["a", "b", "c", "+", "ab", "c", "+", "a", "bc"], "...+..+..")):
        rnd.append({"seq": list(sq_), "sst": st_})
    batches["random"] = [(rq, c) for c in rnd for rq in case_requests(rng, c["seq"], c["sst"])]
    # more than 256 strands (counts beyond the small integers CPython shares): the plain-list generators only
    many = []
    for s in ("+".join(["(."] + [".."] * 258 + [".)"]), "+".join(["."] * 257), "+".join(["()"] * 300)):
        many.append({"seq": gs.seq_for(rng, s, names=("a", "b")), "sst": s})
    batches["many-strands"] = [(rq, c) for c in many for rq in case_requests(rng, c["seq"], c["sst"], objects=False, explicit=False)]
    build.many = many
    # outside the quantifier (correspondence of the model only): empty strands, ill-formed and misaligned input
    odd = []
    pool = small if quick else small[::3]
    for c in rng.sample(pool, min(len(pool), 500 if quick else 4000)):
        s = gs.mutate(rng, c["sst"], alphabet="().+")
        seq = ["+" if ch == "+" else rng.choice("ab") for ch in s]
        if rng.random() < 0.2 and seq:
            i = rng.randrange(len(seq))
            seq = seq[:i] + [rng.choice(["+", "a"])] + seq[i + (rng.random() < 0.5):]
        odd.append({"seq": seq, "sst": s})
    for s in gs.all_strings("().+", 5):
        if not (gs.is_wf(s) and gs.nonempty_strands(s)):
            odd.append({"seq": ["+" if ch == "+" else "a" for ch in s], "sst": s})
    batches["outside-quantifier"] = [(rq, c) for c in odd for rq in case_requests(rng, c["seq"], c["sst"], explicit=False)]
    return batches, small, rnd


def shrink_case(c):
    seq, s = c["seq"], c["sst"]
    for i in range(len(s)):
        yield {"seq": seq[:i] + seq[i + 1:], "sst": s[:i] + s[i + 1:]}
    for i in range(len(s)):
        for j in range(i + 2, min(len(s), i + 5) + 1):
            yield {"seq": seq[:i] + seq[j:], "sst": s[:i] + s[j:]}


def partial_statements():
    """`Definition ..._full : Prop` statements kept in the proof files (not proved)"""
    out = []
    d = os.path.join(COQ, "theories", "Proofs")
    for f in sorted(os.listdir(d)):
        if f.startswith("Rot") and f.endswith(".v") or f == "C07.v":
            txt = open(os.path.join(d, f)).read()
            for m in re.finditer(r"Definition\s+([A-Za-z0-9_']+_full)\b[^.]*?:\s*Prop\s*:=(.*?)\.\s*\n", txt, flags=re.S):
                out.append(f"{f}: {m.group(1)} := {' '.join(m.group(2).split())}")
    return out


def snippet(c):
    return ("from dsdobjects.base_classes import DomainS, ComplexS\n"
            "from dsdobjects.complex_utils import *\n"
            f"seq, sst = {c['seq']!r}, list({c['sst']!r})\n"
            "print(rotate_complex_once(list(seq), list(sst)))\n"
            "print(list(rotate_complex_db(list(seq), list(sst))))\n"
            "d = {n: DomainS(n, length=5) for n in seq if n != '+'}\n"
            "cx = ComplexS([d.get(n, n) for n in seq], list(sst))\n"
            "print([(list(map(str, x)), ''.join(y)) for x, y in cx.rotate()], list(cx.rotate_pt()))\n"
            "print([cx.rotate_pairtable_loc((i, 0), 1) for i in range(cx.size)])\n")


def forms_snippet(fn, seq, sst, sform, tform):
    arg = {"list": "list(sst)", "tuple": "tuple(sst)", "str": "''.join(sst)", "iter": "iter(list(sst))",
           "gen": "(c for c in list(sst))", "complex": "cx.structure"}[tform]
    sq = "''.join(seq)" if sform == "str" else "list(cx.sequence)" if tform == "complex" else "list(seq)"
    show = "lambda r: (list(map(str, r[0])), ''.join(r[1]))"
    if fn == "rotate_complex_db":
        show = "lambda r: [(list(map(str, x)), ''.join(y)) for x, y in r]"
    return ("from dsdobjects.base_classes import DomainS, ComplexS\n"
            f"from dsdobjects.complex_utils import {fn} as f\n"
            f"seq, sst = {seq!r}, list({''.join(sst)!r})\n"
            f"show = {show}\n"
            + ("d = {n: DomainS(n, length=5) for n in seq if n != '+'}\n"
               "cx = ComplexS([d.get(n, n) for n in seq], list(sst))\n" if tform == "complex" else "")
            + "print(show(f(list(seq), list(sst))))      # both arguments as lists\n"
            f"print(show(f({sq}, {arg})))      # the same complex, structure as {arg}\n")


def forms_witnesses(diffs):
    """disagreements of `rotate_forms` requests: the direct statement on the implementation is that the answer does not depend
    on the form in which the (well-formed, aligned) arguments are handed over"""
    from common import run_impl
    out = []
    ds = sorted([d for d in diffs if d[1][0] == "rotate_forms"], key=lambda d: len(d[1][1][2]))
    for d in ds[:6]:
        fn, seq, sst, sform, tform = d[1][1]
        a_, b_ = run_impl([("rotate_forms", [fn, seq, sst, "list", "list"]), d[1]], jobs=1)
        if a_ != b_:
            how = {"complex": "the iterator ComplexS.structure", "iter": "a one-shot iterator", "gen": "a generator"}.get(tform, "a " + tform)
            out.append({"key": {"forms": [fn, seq, "".join(sst), sform, tform]}, "input": {"forms": d[1][1]},
                        "what": f"{fn} answers {b_!r} when the structure is handed over as {how} (sequence as {sform}) and "
                                f"{a_!r} for the same complex as two lists",
                        "snippet": forms_snippet(fn, seq, sst, sform, tform)})
    return out


def recut(rng, seq):
    """another sequence with the same strand lengths whose members join to the same text: the text of every strand is cut
    into as many non-empty names at other places (['a', 'aa'] -> ['aa', 'a'])"""
    out, strand = [], []
    for x in list(seq) + ["+"]:
        if x != "+":
            strand.append(x)
            continue
        text, k = "".join(strand), len(strand)
        if k and len(text) > k:
            cut = [0] + sorted(rng.sample(range(1, len(text)), k - 1)) + [len(text)]
            strand = [text[cut[i]:cut[i + 1]] for i in range(k)]
        out += strand + ["+"]
        strand = []
    return out[:-1]


def members_failure(args, r):
    """direct statement on an answer of `rotate_db_members`: every rotation consists of '+' markers and of the very objects
    handed over in THIS call (whatever was rotated before), each under its own name"""
    from common import Err
    seq = args[0]
    if isinstance(r, Err) or not isinstance(r, list):
        return None                                   # failures are compared with the model in the correspondence batches
    for k, rot in enumerate(r):
        nm, _st, org = rot
        for j, (n, o) in enumerate(zip(nm, org)):
            if (n == "+") != (o == -2) or (n != "+" and (o < 0 or o >= len(seq) or seq[o] != n)):
                return (f"rotation {k} of rotate_complex_db holds at position {j} the member {n!r} which is not a member of "
                        f"the sequence handed over in this call (names {nm!r}, origins {org!r}, input {seq!r})")
        if sorted(x for x in nm if x != "+") != sorted(x for x in seq if x != "+"):
            return f"rotation {k} of rotate_complex_db has the members {nm!r}, the input has {seq!r}"
    return None


def history_witnesses(diffs):
    """disagreements of view histories (query, turns assignment, query): the direct statement of the property on the
    implementation is that every view equals that of a fresh complex at the same rotation"""
    from common import run_impl, Err
    hreqs = [d[1] for d in diffs if d[1][0] == "c03_history"][:20]
    out = []
    if hreqs:
        for rq, r in zip(hreqs, run_impl([("c03_fresh_compare", q[1]) for q in hreqs])):
            if isinstance(r, Err) or r:
                out.append({"key": {"seq": rq[1][0], "struct": "".join(rq[1][1]), "ops": rq[1][2]}, "input": {"history": rq[1]},
                            "what": str(r), "snippet": f"# harness op c03_fresh_compare {rq[1]!r} (harness/impl/views.py)"})
    return out


def run(ctx):
    res = prove(ctx)
    runner = ensure_model_runner()
    diffs, diff_cases, direct = [], [], []
    small, rnd = [], []
    if runner.ok:
        batches, small, rnd = build(ctx)
        # the object's generators must start with the CURRENT representation: enumerate, move the object to
        # another rotation through `turns`, enumerate again (model: Model/Views.v state machine of C03)
        hist = []
        for c_ in [x for x in small if "+" in x["sst"]][: (400 if ctx.tier == "quick" else 6000)]:
            s_ = c_["sst"]
            n_ = s_.count("+") + 1
            sq_ = list(c_["seq"])
            v_ = ctx.rng.randrange(-n_, 2 * n_ + 1)
            hist.append((("c03_history", [sq_, list(s_), [["rotate_pt"], ["rotate"], ["set_turns", v_], ["rotate_pt"], ["rotate"],
                                                           ["set_turns", v_ + 1], ["rotate"], ["rotate_pt"]]]),
                         {"seq": sq_, "sst": s_}))
        batches["generators-after-turns"] = hist
        for name, pairs in batches.items():
            reqs = [p[0] for p in pairs]
            ds = correspond(ctx, name, reqs)
            diffs += ds
            diff_cases += [pairs[d[0]][1] for d in ds]
        # nothing survives between independent calls: the same request after earlier calls in the same process on related
        # arguments (same structure with another / misaligned sequence, same sequence with another structure)
        rng = ctx.rng
        areqs, aimpl = [], []
        pool_ = [c for c in small if "+" in c["sst"]]
        for c_ in rng.sample(pool_, min(len(pool_), 300 if ctx.tier == "quick" else 3000)) + rnd[:40]:
            seq_, s_ = list(c_["seq"]), c_["sst"]
            plain = [x for x in seq_ if x != "+"]
            earlier = []
            for _ in range(2):                                    # same structure, strand break elsewhere in the sequence
                cut = sorted(rng.sample(range(1, len(plain)), min(s_.count("+"), len(plain) - 1))) if len(plain) > 1 else []
                mis, prev = [], 0
                for k_ in cut + [len(plain)]:
                    mis += plain[prev:k_] + ["+"]
                    prev = k_
                earlier.append([mis[:-1], list(s_)])
            earlier.append([[x if x == "+" else "q" for x in seq_], list(s_)])     # same structure, other domains
            other = rng.choice(pool_)
            earlier.append([list(other["seq"]), list(other["sst"])])
            rng.shuffle(earlier)
            for opn in ("rotate_complex_once", "rotate_complex_db"):
                areqs.append((opn, [seq_, list(s_)]))
                aimpl.append(("after", [opn, earlier, [seq_, list(s_)]]))
        diffs += correspond(ctx, "after-earlier-calls", areqs, impl_reqs=aimpl)
        # nucleotide level: sequence and structure handed over as STRINGS (one character per position)
        sreqs = []
        for c_ in [c for c in small if "+" in c["sst"]][:: (3 if ctx.tier == "quick" else 1)] + rnd[:60]:
            sq_ = ["+" if x == "+" else rng.choice("ACGT") for x in c_["sst"]]
            sreqs.append(("rotate_complex_db", [sq_, list(c_["sst"])]))
        diffs += correspond(ctx, "string-arguments", sreqs, impl_reqs=[("rotate_complex_db_str", r[1]) for r in sreqs])
        # the object's generators after a consumed split() (which works on the object's own tables): direct statement
        from common import run_impl as _ri2, Err as _Err2
        spl = []
        dpool = [c for c in small if "+" in c["sst"] and len(c["sst"]) <= 8] + \
                [{"seq": gs.seq_for(rng, s_, names=("a", "b", "x")), "sst": s_} for s_ in ("(.+(.+)+.)", "..+((+))", "((+..+))", "(+)+(+)", ".+(+)")]
        for c_ in rng.sample(dpool, min(len(dpool), 300 if ctx.tier == "quick" else 3000)) + dpool[-5:]:
            n_ = c_["sst"].count("+") + 1
            spl.append(("c03_fresh_compare", [list(c_["seq"]), list(c_["sst"]), [["split"], ["pair_table"], ["rotate_pt"], ["rotate"],
                                                                                ["get_paired_loc", [rng.randrange(n_), 0]], ["rotate_pt_t", n_ + 1],
                                                                                ["set_turns", 1], ["split"], ["rotate_pt"], ["pair_table"]]]))
        for rq, r in zip(spl, _ri2(spl)):
            if isinstance(r, _Err2) or r:
                direct.append({"key": {"seq": rq[1][0], "struct": "".join(rq[1][1]), "ops": rq[1][2]}, "input": {"history": rq[1]},
                               "what": str(r), "snippet": f"# harness op c03_fresh_compare {rq[1]!r} (harness/impl/views.py)"})
        ctx.cov["correspondence"]["generators-after-split(impl)"] = {"cases": len(spl), "failures": len(direct)}
        # argument forms: the utility functions copy the structure (list(sst) / one pass over it), so it may be any iterable
        # of characters - a tuple, a str, a one-shot iterator or generator, and in particular what a ComplexS hands out
        # (list(cx.sequence) with domain OBJECTS and the iterator cx.structure); rotate_complex_db also takes a str sequence
        freqs, fimpl = [], []
        wf_small = [c for c in small if gs.is_wf(c["sst"])]
        fpool = [c for c in wf_small if "+" not in c["sst"]][:: (8 if ctx.tier == "quick" else 1)] + \
                rng.sample(wf_small, min(len(wf_small), 250 if ctx.tier == "quick" else 4000)) + rnd[:40] + rnd[-12:]
        for c_ in fpool:
            seq_, s_ = list(c_["seq"]), c_["sst"]
            if len(seq_) != len(s_):
                continue
            for fn_ in ("rotate_complex_once", "rotate_complex_db"):
                tf_ = rng.choice(FORMS)
                sf_ = "str" if (fn_ == "rotate_complex_db" and tf_ != "complex" and rng.random() < 0.3) else "list"
                sq_ = ["+" if x == "+" else rng.choice("ACGT") for x in seq_] if sf_ == "str" else seq_
                freqs.append((fn_, [sq_, list(s_)]))
                fimpl.append(("rotate_forms", [fn_, sq_, list(s_), sf_, tf_]))
        diffs += correspond(ctx, "argument-forms", freqs, impl_reqs=fimpl)
        # different complexes that READ the same: names that are concatenations of each other ('a','aa' / 'aa','a'), so that
        # the joined text of the sequence (and the structure) is equal while the domains differ; rotated one after the other
        # in one process.  And the members themselves: plain names or domain objects of the same names - a rotation consists
        # of the very members of ITS input (direct statement on identities, `rotate_db_members`).
        ereqs, eimpl, mreqs = [], [], []
        epool = [c for c in small if "+" in c["sst"]]
        for c_ in rng.sample(epool, min(len(epool), 150 if ctx.tier == "quick" else 2000)) + rnd[:25]:
            s_ = c_["sst"]
            seq_ = gs.seq_for(rng, s_, names=rng.choice([("a", "aa", "aaa"), ("a", "b", "ab", "ba"), ("d1", "d", "1", "d11")]),
                              complementary=rng.random() < 0.5)
            cuts = [recut(rng, seq_) for _ in range(3)]
            later = cuts.pop(rng.randrange(len(cuts))) if rng.random() < 0.5 else seq_
            earlier = [[x, list(s_)] for x in cuts + [seq_] if x != later]
            for opn in ("rotate_complex_db", "rotate_complex_once"):
                ereqs.append((opn, [later, list(s_)]))
                eimpl.append(("after", [opn, earlier, [later, list(s_)]]))
            if len(mreqs) < (120 if ctx.tier == "quick" else 1500):
                msk = [rng.random() < 0.6 for _ in later]
                e2 = [[e[0], e[1], rng.choice([msk, [False], [True], [not b for b in msk]])] for e in earlier[:2]]
                e2 += [[later, list(s_), rng.choice([[False], [True], [not b for b in msk]])], [later, list(s_), msk]]
                rng.shuffle(e2)
                mreqs.append(("after", ["rotate_db_members", e2, [later, list(s_), msk]]))
        diffs += correspond(ctx, "after-equal-text", ereqs, impl_reqs=eimpl)
        nbad = 0
        for rq, r in zip(mreqs, _ri2(mreqs)):
            w = members_failure(rq[1][2], r)
            if w:
                nbad += 1
                direct.append({"key": {"members": rq[1]}, "input": {"members": rq[1]}, "what": w,
                               "snippet": f"# harness op after {rq[1]!r} (harness/implrunner.py, harness/impl/rotation.py)"})
        ctx.cov["correspondence"]["members-of-the-input(impl)"] = {"cases": len(mreqs), "failures": nbad}
    ctx.cov["rule"] = ("every well-formed structure with non-empty strands up to the tier's length bound (8 quick / 10 "
                       "thorough) with generated domain content, random structures up to 60 strands / depth 100, single "
                       "strands, disconnected and rotationally symmetric complexes, each through rotate_complex_once, "
                       "rotate_complex_db and rotate_complex_pt (turns None and every kind of explicit int: negative, 0, < n, n, > n), ComplexS.rotate / rotate_pt (likewise) / "
                       "rotate_pairtable_loc; the structure handed to rotate_complex_once / rotate_complex_db as tuple, str, one-shot iterator, "
                       "generator and as the iterator ComplexS.structure (sequence of domain objects), the sequence of "
                       "rotate_complex_db as str; plus mutated (ill-formed, empty-strand, misaligned) inputs; "
                       "non-trivial = distinct results on which model and implementation agree")
    ctx.cov["small_scope_structures"] = len(small)
    ctx.cov["random_structures"] = len(rnd)
    ctx.cov["exhaustive"] = False
    ctx.cov["partial"] = partial_statements()

    def search(diffs):
        from corr import after_witnesses
        pre = history_witnesses(diffs) + after_witnesses(diffs) + forms_witnesses(diffs)
        from common import run_impl as _ri
        for d in [x for x in diffs if x[1][0] == "rotate_complex_db_str"][:10]:
            a_, b_ = _ri([("rotate_complex_db", d[1][1]), ("rotate_complex_db_str", d[1][1])], jobs=1)
            if a_ != b_:
                pre.append({"key": {"string_args": d[1][1]}, "input": {"string_args": d[1][1]},
                            "what": f"rotate_complex_db enumerates {b_!r} for string arguments and {a_!r} for the same complex as lists",
                            "snippet": f"from dsdobjects.complex_utils import rotate_complex_db as f; s, t = {''.join(d[1][1][0])!r}, {''.join(d[1][1][1])!r}; "
                                       "print(list(f(s, t)), list(f(list(s), list(t))))"})
        cases = []
        for c in diff_cases[:4]:
            def bad(c2):
                rq = [r for r in case_requests(ctx.rng, c2["seq"], c2["sst"], explicit=False)]
                return any(disagree_one(r) for r in rq)
            try:
                if bad(c):
                    c = shrink(c, bad, shrink_case, budget=40)
            except Exception:
                pass
            cases.append(c)
        cases = getattr(build, "many", [])[:2] + cases + small + rnd
        out = run_oracle("c07.py", {"cases": cases, "max": 20})
        found = []
        for f in out["failures"][:10]:
            c = {"seq": f["seq"], "sst": f["sst"]}
            found.append({"key": {"sst": f["sst"], "seq": f["seq"]}, "input": c, "what": f["what"],
                          "snippet": snippet(c)})
        return pre + direct + found

    if direct and res["ok"] and runner.ok and not diffs:
        for f in direct[:10]:
            ctx.violation("counterexample", f)
        return
    conclude(ctx, res, runner, diffs, search)


def replay(data):
    inp = data.get("input")
    if not inp:
        print("replay file names a broken proof/correspondence link only:", json.dumps(data.get("broken_links"))[:2000])
        return 1
    if isinstance(inp, dict) and "string_args" in inp:
        from common import run_impl
        a_, b_ = run_impl([("rotate_complex_db", inp["string_args"]), ("rotate_complex_db_str", inp["string_args"])], jobs=1)
        print(a_, b_)
        return 1 if a_ != b_ else 0
    if isinstance(inp, dict) and "forms" in inp:
        from common import run_impl
        fn, seq, sst, sform, tform = inp["forms"]
        a_, b_ = run_impl([("rotate_forms", [fn, seq, sst, "list", "list"]), ("rotate_forms", inp["forms"])], jobs=1)
        print("as lists:", a_, f"| structure as {tform}, sequence as {sform}:", b_)
        return 1 if a_ != b_ else 0
    if isinstance(inp, dict) and "members" in inp:
        from common import run_impl
        r = run_impl([("after", inp["members"])], jobs=1)[0]
        w = members_failure(inp["members"][2], r)
        print(w or r)
        return 1 if w else 0
    if isinstance(inp, dict) and "after" in inp:
        from common import run_impl
        name, earlier, args = inp["after"]
        a, b = run_impl([(name, args)], jobs=1)[0], run_impl([("after", inp["after"])], jobs=1)[0]
        print("first call:", a, "| after earlier calls:", b)
        return 1 if a != b else 0
    if isinstance(inp, dict) and "history" in inp:
        from common import run_impl
        r = run_impl([("c03_fresh_compare", inp["history"])])[0]
        print(r)
        return 1 if r else 0
    out = run_oracle("c07.py", {"cases": [inp]})
    print(json.dumps(out))
    return 1 if out["failures"] else 0
