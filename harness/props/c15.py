"""C15 — subclass registries are independent; failing user constructors leave no trace.
(The reader-slot part of C15 is checked elsewhere.)"""
import reghist as rh
from reghist import D, DA, DAA, DB, DFB, DFA, C, CA, CAA, CB, CFB, CFA, S, SA, SFA, M, MA, MAA, MFA, R, RA, RFA, RFB

PARTIAL = [
    'the reader part (set_io_objects, classes of read_pil results) is not covered by this check',
    "an inherited class attribute ID is read through the base classes, so the automatic names of a subclass that never created an automatically named object follow the base class counter (Python attribute look-up; modelled and observed); C15_frame states that the class's OWN ID attribute is untouched",
    'a user constructor failing after super().__init__ with an automatic name has already advanced the class counter (self.__class__.ID += 1 ran): names and canonical forms stay free, the counter does not move back (modelled, observed)',
]


def batches(ctx):
    rng, quick = ctx.rng, ctx.tier == "quick"
    out = []
    dcls = [D, DA, DAA, DB, DFB, DFA]
    a = [rh.dom(s, c, "a", ln) for c in dcls for ln in (5, 9) for s in (0, 1)]
    a += [rh.dom(1, c, "a") for c in dcls] + [rh.dom(1, c) for c in (D, DA, DB, DFA)]
    a += [rh.inv(1, 0), rh.drop(0), rh.drop(1)]
    out.append(("domain-classes/exhaustive-depth-3", rh.all_histories(a, 3), 3, dcls))
    ccls = [C, CA, CAA, CB, CFB, CFA]
    setup = [rh.dom(0, D, "a", 5), rh.dom(1, DA, "a", 5)]
    a = [rh.cplx(s, c, seq, sst, n) for c in ccls for (seq, sst) in (([0, "+", 1], ".+."), ([1, "+", 0, "+", 0], "(+)+."))
         for n in (None, "X") for s in (2,)]
    a += [rh.cplx(3, c, [0, "+", 0, "+", 1], ".+(+)", None) for c in ccls] + [rh.cplx(3, c, None, None, "X") for c in ccls]
    a += [rh.drop(2), rh.drop(3)]
    hs = [setup + h for h in rh.all_histories(a, 3 if quick else 3)]
    out.append(("complex-classes/exhaustive-depth-3", hs, 4, ccls, len(setup)))
    # strands, macrostates, reactions: siblings and failing classes over one population
    setup = setup + [rh.cplx(2, C, [0, "+", 1], ".+.", "A"), rh.cplx(3, CA, [0, "+", 1], ".+.", "A")]
    a = [rh.strand(4, c, [0, 1], n) for c in (S, SA, SFA) for n in (None, "X")]
    a += [rh.macro(5, c, m, None) for c in (M, MA, MAA, MFA) for m in ([2], [3], [2, 3])]
    a += [rh.rxn(6, c, r, p, "open", None) for c in (R, RA, RFA, RFB) for r, p in (([2], [3]), ([3], [2]))]
    a += [rh.drop(4), rh.drop(5), rh.drop(6)]
    hs = [setup + h for h in rh.all_histories(a, 3)]
    out.append(("container-classes/exhaustive-depth-3", hs, 7, [S, SA, SFA, M, MA, MAA, MFA, R, RA, RFA, RFB], len(setup)))
    n, ln = (300, 40) if quick else (5000, 100)
    out.append(("all-classes/random-subclass-heavy", [rh.random_history(rng, ln, p_sub=0.7) for _ in range(n)],
                rh.NSLOTS, rh.ALL))
    # A registry belongs to a class OBJECT, not to what the class is called: a random fifth of the request lines of every
    # batch runs on zoos of the same shape whose user classes no naming attribute tells apart (impl/registry.py
    # build_variant: 1 = every user class of one kind has one __name__/__qualname__/__module__, as class factories, type()
    # called twice and re-executed class statements produce; 2 = those of the library class of its kind).  The model's class
    # table, hence its answer, is the same for every variant.  (thorough: additionally the exhaustive batches in full on both.)
    mixed = []
    for label, hists, nslots, watch, *q in out:
        mixed.append((label, hists, nslots, watch, q[0] if q else 0,
                      [rng.choice((0, 0, 0, 0, 0, 0, 0, 0, 1, 2)) for _ in range(4096)]))
        if not quick and "exhaustive" in label:
            mixed.append((label + "/indistinguishable-class-names", hists, nslots, watch, q[0] if q else 0, (1, 2)))
    return mixed


RULE = ("every history of depth 3 over equal requests (one name, two lengths, name-only, automatic names, ~, drops) across "
        "DomainS, a direct subclass, a sub-subclass, a sibling with changed constants/PREFIX/ID and two failing subclasses "
        "(raising before / after super().__init__); the same for six complex classes over rotations of two complexes built "
        "from domains of two classes; strands, macrostates, reactions over siblings and failing classes; random histories "
        "with 70% subclass requests; a random fifth of the request lines of each of these batches runs on two zoos of the "
        "same shape whose user classes have identical __name__/__qualname__/__module__ (alike among themselves; alike to the "
        "library class of their kind) against the same model answers; all registries of all observed classes compared after every step; distinct = distinct "
        "final observable states")


def run(ctx):
    from common import replay_recorded_findings
    replay_recorded_findings(ctx, ["c15_mixed_session", "c15_failing_ctor_canon_held"])
    # clauses that need runtime context outside the history machine (reader configuration histories, failing
    # constructors with the exception still referenced): stated directly on the implementation
    from common import run_oracle
    out = run_oracle("c15_extra.py", {"seed": ctx.seed, "n": 60 if ctx.tier == "quick" else 1500})
    for f in out["failures"]:
        ctx.violation("counterexample", {"key": {"extra": f["steps"]}, "input": f["steps"], "what": "; ".join(f["what"]),
                                         "snippet": "# harness/oracles/c15_extra.py, steps: " + repr(f["steps"])})
    ctx.cov["correspondence"]["io-config-histories+failing-ctor(impl)"] = {"histories": 60 if ctx.tier == "quick" else 1500,
                                                                           "failures": len(out["failures"])}
    rh.run_check(ctx, "C15", batches, RULE, partial=PARTIAL)


def replay(data):
    return rh.replay("C15", data)
