"""C06 — dot-bracket / pair-table / strand-table conversions."""
import json
from common import prove, ensure_model_runner, run_oracle, run_impl, Err
from corr import correspond, shrink, disagree_one, history_witnesses
from flow import conclude
import gen_structs as gs


def requests(ctx):
    rng = ctx.rng
    quick = ctx.tier == "quick"
    L = 7 if quick else 9
    batches = {}
    # (i) small scope: every string over ( ) . + x, well- and ill-formed, empty strands included
    strs = list(gs.all_strings("().+x", L))
    batches["make_pair_table/exhaustive"] = [("make_pair_table", [list(s), "+", ["."]]) for s in strs]
    # (ii) structured random: long, deep, many strands
    n_rand = 300 if quick else 6000
    big = [gs.random_wf(rng, rng.choice([10, 40, 120, 400]), p_break=rng.choice([0.02, 0.1, 0.3]),
                        nonempty=rng.random() < 0.8) for _ in range(n_rand)]
    deep = ["(" * k + "." + ")" * k for k in (1, 50, 100, 300)] + ["(+" * k + "." + "+)" * k for k in (1, 30, 100)]
    # more than 256 strands (strand indices beyond the small integers CPython shares), pairs inside late strands
    deep += ["+".join(["()"] * 300), "+".join(["(.)", "."] * 140), "(" + "+".join(["()"] * 270) + ")"]
    big += deep
    # (iii) malformed stream
    bad = [gs.mutate(rng, s) for s in big for _ in range(2)]
    batches["make_pair_table/random"] = [("make_pair_table", [list(s), "+", ["."]]) for s in big + bad]
    # other break characters and ignore sets
    other = []
    for s in strs[: (4000 if quick else 40000)]:
        brk = rng.choice("&|/ x.(")
        ign = rng.choice([".", ".x", ".~", ".+"])
        other.append(("make_pair_table", [list(s.replace("+", brk) if rng.random() < 0.7 else s), brk, list(ign)]))
    batches["make_pair_table/parameters"] = other
    # foreign characters of every kind (format/escape characters, digits, non-ASCII): all rejected alike
    foreign = []
    for s in rng.sample(strs, min(len(strs), 1500 if quick else 15000)):
        k = rng.randrange(len(s) + 1)
        c = rng.choice(list("{}%[]<>*~0\\'\"$#@!,;:?=_-") + ["\u2192", "\u00e9", "\n", "\t", "{}", "{0}", "%s"])
        t = list(s[:k]) + list(c) + list(s[k:])
        foreign.append(("make_pair_table", [t, "+", ["."]]))
        if "+" in s and len(t) < 9:
            foreign.append(("rotate_complex_db", [["+" if x == "+" else "d" for x in t], t]))
    batches["make_pair_table/foreign-characters"] = foreign
    # strand tables
    seqs = []
    for s in gs.all_strings("ab+", 6):
        seqs.append(("make_strand_table_list", [list(s), "+"]))
        seqs.append(("make_strand_table_str", [list(s), "+"]))
    names = ["a", "b*", "+", "&", "long_name-1", "c"]
    for _ in range(400 if quick else 5000):
        brk = rng.choice(["+", "&"])
        sq = [rng.choice(names) for _ in range(rng.randrange(0, 12))]
        seqs.append(("make_strand_table_list", [sq, brk]))
        st = [[rng.choice(names) for _ in range(rng.randrange(0, 4))] for _ in range(rng.randrange(0, 5))]
        seqs.append(("strand_table_to_sequence", [st, brk]))
        stc = [[rng.choice("ACGT+&") for _ in range(rng.randrange(0, 5))] for _ in range(rng.randrange(0, 5))]
        seqs.append(("strand_table_join", [stc, [brk]]))
        seqs.append(("make_strand_table_str", [[rng.choice("ACGT+&") for _ in range(rng.randrange(0, 12))], brk]))
    # break markers that are not interned one-character strings (non-Latin-1, several characters): equality, not identity
    for _ in range(300 if quick else 3000):
        brk = rng.choice(["\u2192", "_", "\u00e9", "\u0416", "\U0001F9EC"])       # one character each: make_strand_table asserts that
        pool_ = ["a", "b*", "+", brk, brk, "c_1"]
        sq = [rng.choice(pool_) for _ in range(rng.randrange(0, 10))]
        seqs.append(("make_strand_table_list", [sq, brk]))
        st = [[rng.choice(["a", "b*", "+"]) for _ in range(rng.randrange(0, 4))] for _ in range(rng.randrange(0, 5))]
        seqs.append(("strand_table_to_sequence", [st, brk]))
        if len(brk) == 1:
            seqs.append(("make_strand_table_str", [[rng.choice(["A", "C", "+", brk]) for _ in range(rng.randrange(0, 10))], brk]))
    batches["strand_tables"] = seqs
    # the "other operations" clause: the fast rotation on ill-formed structures
    rot = []
    for s in strs:
        if "+" in s and "x" not in s:
            rot.append(("rotate_complex_once", [["+" if c == "+" else "d" for c in s], list(s)]))
    rng.shuffle(rot)
    batches["rotate_complex_once/ill-formed"] = rot[: (20000 if quick else len(rot))]
    # complex construction and structural views of a complex on ill-formed structures:
    # a value or SecondaryStructureError, exactly as the model says
    obj = []
    for s in strs:
        if "x" not in s and s and not gs.is_wf(s) and gs.nonempty_strands(s):
            obj.append(("c03_history", [["+" if c == "+" else "d" for c in s], list(s),
                                        [["pair_table"], ["is_connected"], ["exterior_domains"], ["exterior_domains"],
                                         ["enclosed_domains"], ["get_paired_loc", [0, 0]], ["pair_table"], ["enclosed_domains"],
                                         ["get_loop_index", [0, 0]], ["exterior_domains"]]]))
    rng.shuffle(obj)
    obj = obj[: (3000 if quick else 40000)]
    # ill-formed structures that pass construction (the fast rotation cannot see the imbalance): every access
    # of every structural view must keep reporting it
    for s in ["(..", ".x)", "((+)", "(+(+)", "(", ")", "(.+.", ".+)", "((.)", "(+))", "x", ".x.+."]:
        sq = ["+" if c == "+" else "d" for c in s]
        for first in (["exterior_domains"], ["enclosed_domains"], ["pair_table"], ["is_connected"], ["get_loop_index", [0, 0]]):
            obj.append(("c03_history", [sq, list(s), [first, ["exterior_domains"], ["enclosed_domains"], ["exterior_domains"],
                                                       ["pair_table"], ["is_connected"], ["set_turns", 1], ["enclosed_domains"],
                                                       ["enclosed_domains"], ["exterior_domains"]]]))
    batches["ComplexS/ill-formed"] = obj
    return batches, strs, big + bad


def reuse_requests(ctx):
    """strand tables a caller keeps and uses again: [table, break, uses] (rendering is a query: whatever was asked of
    the same table object before, the rendering asked last is that of a fresh table, and the table is as it was)"""
    rng = ctx.rng
    quick = ctx.tier == "quick"
    names = ["a", "b*", "+", "&", "long_name-1", "c"]
    out = []
    # small scope: every table of up to 3 strands of up to 2 elements over two names, rendered twice
    pool = [[]] + [[x] for x in "ab"] + [[x, y] for x in "ab" for y in "ab"]
    for n in (1, 2, 3):
        tabs = [[]]
        for _ in range(n):
            tabs = [t + [s] for t in tabs for s in pool]
        for t in (tabs if n < 3 or not quick else rng.sample(tabs, 120)):
            out.append([t, "+", [rng.choice(["list", "join", "retable", "scramble"])]])
    for _ in range(400 if quick else 5000):
        brk = rng.choice(["+", "&", "\u2192", "_", "\U0001F9EC"])
        el = names if rng.random() < 0.7 else ["A", "C", "G", "T"]
        st = [[rng.choice(el) for _ in range(rng.choice([0, 1, 1, 2, 3, 6]))] for _ in range(rng.choice([0, 1, 2, 2, 3, 4, 9]))]
        uses = [rng.choice(["list", "list", "join", "retable", "scramble"]) for _ in range(rng.randrange(1, 4))]
        out.append([st, brk, uses])
    # many strands (the accumulated sequence is long)
    out.append([[["d%d" % k] for k in range(300)], "+", ["list"]])
    return out


def reuse_witness(args):
    """failing input from a table-reuse request [table, break, uses] on which the direct statement fails (shrunk)"""
    def bad(a):
        r = run_impl([("strand_table_reuse_fault", a)], jobs=1)[0]
        return bool(r) or isinstance(r, Err)

    def smaller(a):
        st, brk, uses = a
        for k in range(len(uses)):
            yield [st, brk, uses[:k] + uses[k + 1:]]
        for k in range(len(st)):
            yield [st[:k] + st[k + 1:], brk, uses]
        for k, s_ in enumerate(st):
            for j in range(len(s_) if len(s_) > 1 else 0):          # keep non-empty strands non-empty
                yield [st[:k] + [s_[:j] + s_[j + 1:]] + st[k + 1:], brk, uses]
    if not bad(args):
        return None
    st, brk, uses = shrink(args, bad, smaller, budget=40)
    r = run_impl([("strand_table_reuse_fault", [st, brk, uses])], jobs=1)[0]
    return {"key": {"strand_table_reuse": [st, brk, uses]}, "input": {"strand_table_reuse": [st, brk, uses]},
            "what": f"strand table kept by the caller, uses {uses + ['list']!r} with strand_break={brk!r}: {r}",
            "snippet": "from dsdobjects.complex_utils import strand_table_to_sequence as f; "
                       f"t = {st!r}; print(f(t, strand_break={brk!r}), t, f(t, strand_break={brk!r}))"}


OWNED_EDITS = ["append", "break", "reverse", "pop", "setitem", "clear", "drop", "rotate", "new"]


def owned_requests(ctx):
    """tables the caller got from make_strand_table and edits in place: [form, sequence, break, edits] (the conversion is a
    function of the sequence: an equal sequence converted later gives the cut of the sequence, whatever a caller did to
    the table of an earlier conversion)"""
    rng = ctx.rng
    quick = ctx.tier == "quick"
    out = []
    # small scope: every sequence over a b + up to length 4, as string and as list, one or two edits
    for s in gs.all_strings("ab+", 4 if quick else 6):
        for form in ("str", "list"):
            eds = [[rng.choice(OWNED_EDITS), rng.randrange(6)] for _ in range(rng.choice([1, 1, 2]))]
            out.append([form, list(s), "+", eds])
    # nucleotide strings / domain lists, other break markers (equal to, not identical with, anything in the library),
    # long strands, several edits
    names = ["a", "b*", "+", "&", "long_name-1", "c"]
    for _ in range(500 if quick else 6000):
        brk = rng.choice(["+", "+", "&", "\u2192", "_", "\U0001F9EC"])
        form = rng.choice(["str", "str", "list"])
        el = ["A", "C", "G", "T", "N"] if form == "str" or rng.random() < 0.3 else names
        sq = []
        for k in range(rng.choice([1, 2, 2, 3, 5])):
            sq += ([brk] if k else []) + [rng.choice(el) for _ in range(rng.choice([0, 1, 2, 4, 9, 40]))]
        eds = [[rng.choice(OWNED_EDITS), rng.randrange(50)] for _ in range(rng.randrange(1, 5))]
        out.append([form, sq, brk, eds])
    return out


def owned_witness(args):
    """failing input from a request [form, sequence, break, edits] on which the direct statement fails (shrunk)"""
    def fault(a):
        r = run_impl([("strand_table_owned_fault", a)], jobs=1)[0]
        return "error" if isinstance(r, Err) else None if not r else "shared" if "the same strand object" in r else "value"
    kind = fault(args)

    def bad(a):                     # shrinking keeps the kind of fault (a wrong value stays a wrong value)
        return fault(a) == kind

    def smaller(a):
        form, sq, brk, eds = a
        for k in range(len(eds)):
            yield [form, sq, brk, eds[:k] + eds[k + 1:]]
        for k in range(len(sq)):
            yield [form, sq[:k] + sq[k + 1:], brk, eds]
    if kind is None:
        return None
    form, sq, brk, eds = shrink(args, bad, smaller, budget=40)
    r = run_impl([("strand_table_owned_fault", [form, sq, brk, eds])], jobs=1)[0]
    given = "".join(sq) if form == "str" else sq
    return {"key": {"strand_table_owned": [form, sq, brk, eds]}, "input": {"strand_table_owned": [form, sq, brk, eds]},
            "what": f"table handed out by make_strand_table edited by the caller ({eds!r}), equal sequence converted again: {r}",
            "snippet": "from dsdobjects.complex_utils import make_strand_table as f; "
                       f"s = {given!r}; t = f(s, strand_break={brk!r}); print(t); "
                       f"# edit t in place: {eds!r} (harness op strand_table_owned_fault, harness/impl/cu.py); "
                       f"print(f(s, strand_break={brk!r}))"}


def inverse_requests(ctx, tables):
    """pair_table_to_dot_bracket on tables the implementation produced, plus damaged ones"""
    rng = ctx.rng
    reqs = []
    for t in tables:
        reqs.append(("pair_table_to_dot_bracket", [t, "+"]))
        if rng.random() < 0.1 and t and t[0]:
            t2 = [list(r) for r in t]
            t2[0][0] = [rng.randrange(3), rng.randrange(3)] if rng.random() < 0.7 else None
            reqs.append(("pair_table_to_dot_bracket", [t2, rng.choice("+&")]))
    return reqs


def run(ctx):
    rng, quick = ctx.rng, ctx.tier == "quick"
    res = prove(ctx)
    runner = ensure_model_runner()
    diffs = []
    strs, rnd = [], []
    if runner.ok:
        batches, strs, rnd = requests(ctx)
        for name, reqs in batches.items():
            diffs += correspond(ctx, name, reqs)
        # inverse direction on implementation-made tables
        wf = [s for s in strs + rnd if gs.is_wf(s)]
        tabs = [t for t in run_impl([("make_pair_table", [list(s), "+", ["."]]) for s in wf]) if not isinstance(t, Err)]
        inv_ = inverse_requests(ctx, tabs)
        diffs += correspond(ctx, "pair_table_to_dot_bracket", inv_)
        sub_ = inv_[: (1500 if ctx.tier == "quick" else 20000)]
        diffs += correspond(ctx, "pair_table_to_dot_bracket/one-shot-iterator", sub_,
                            impl_reqs=[("pair_table_to_dot_bracket_iter", r[1]) for r in sub_])
    # strand tables the caller keeps: one table object used several times (model: the rendering of a fresh table), and
    # the direct statement that no use changes the table
    reuse_bad = []
    if runner.ok:
        ru = reuse_requests(ctx)
        diffs += correspond(ctx, "strand_table_to_sequence/same-table-again", [("strand_table_to_sequence", [a[0], a[1]]) for a in ru],
                            impl_reqs=[("strand_table_to_sequence_reuse", a) for a in ru])
        faulty = [a for a, r in zip(ru, run_impl([("strand_table_reuse_fault", a) for a in ru])) if r or isinstance(r, Err)]
        ctx.cov["correspondence"]["strand_table/kept-table-unchanged(impl)"] = {"cases": len(ru), "failures": len(faulty)}
        faulty.sort(key=lambda a: (not all(a[0]), len(json.dumps(a))))      # tables without empty strands first
        for a in faulty[:3]:
            w = reuse_witness(a)
            if w:
                reuse_bad.append(w)
        if reuse_bad and res["ok"] and not diffs:
            for f in reuse_bad[:10]:
                ctx.violation("counterexample", f)
            return
    # list structures whose members are not single characters ('' / '.x' / '..'): never a legal position, whatever form
    # `ignore` is given in (direct statement on the implementation: the model speaks about character lists only)
    if runner.ok:
        odd = []
        for s_ in rng.sample(strs, min(len(strs), 300 if quick else 3000)):
            if not s_:
                continue
            t_ = list(s_)
            t_.insert(rng.randrange(len(t_) + 1), rng.choice(["", ".x", "..", "x.", "()", ".+", " "]))
            odd.append(("make_pair_table_members", [t_, "+", rng.choice([["."], [".", "x"], ["x", "."]]), rng.choice(["default", "str", "set", "list"])]))
        bad_odd = []
        for rq, r in zip(odd, run_impl(odd)):
            if not (isinstance(r, Err) and r.kind == "SecondaryStructureError"):
                bad_odd.append({"key": {"members": rq[1]}, "input": {"members": rq[1]},
                                "what": f"make_pair_table accepted / failed differently on a list structure with the member {[m for m in rq[1][0] if len(m) != 1]!r}: {r!r}",
                                "snippet": f"from dsdobjects.complex_utils import make_pair_table; make_pair_table({rq[1][0]!r})  # ignore as {rq[1][3]}: {rq[1][2]!r}"})
        ctx.cov["correspondence"]["make_pair_table/odd-members(impl)"] = {"cases": len(odd), "failures": len(bad_odd)}
        if bad_odd and res["ok"] and not diffs:
            for f in bad_odd[:10]:
                ctx.violation("counterexample", f)
            return
        direct_odd = bad_odd
    else:
        direct_odd = []
    # tables make_strand_table handed out, edited in place by the caller; an equal sequence converted again (direct
    # statement on the implementation: conversions are independent of each other)
    owned_bad = []
    if runner.ok:
        ow = owned_requests(ctx)
        faulty = [(a, r) for a, r in zip(ow, run_impl([("strand_table_owned_fault", a) for a in ow])) if r or isinstance(r, Err)]
        ctx.cov["correspondence"]["make_strand_table/edited-table-then-again(impl)"] = {"cases": len(ow), "failures": len(faulty)}
        # wrong values before shared objects, sequences without empty strands first, short ones first
        faulty.sort(key=lambda ar: (isinstance(ar[1], Err) or "the same strand object" in ar[1],
                                    ar[0][0] == "str" and not all("".join(ar[0][1]).split(ar[0][2])), len(json.dumps(ar[0]))))
        for a, _r in faulty[:3]:
            w = owned_witness(a)
            if w:
                owned_bad.append(w)
        if owned_bad and res["ok"] and not diffs:
            for f in owned_bad[:10]:
                ctx.violation("counterexample", f)
            return
    ctx.cov["rule"] = ("every string over '().+x' up to the tier's length bound, random long/deep/many-stranded "
                       "structures and single-fault mutations of them, other break/ignore characters; "
                       "non-trivial = distinct results on which model and implementation agree")

    def search(diffs):
        pre = history_witnesses(diffs)
        cases = []
        for d in [x for x in diffs if x[1][0] != "c03_history"][:4]:
            arg = d[1][1]
            if d[1][0] in ("make_pair_table", "rotate_complex_once"):
                s = "".join(arg[0] if d[1][0] == "make_pair_table" else arg[1])
                brk = arg[1] if d[1][0] == "make_pair_table" else "+"

                def bad(s2, op=d[1][0], brk=brk, arg=arg):
                    rq = (op, [list(s2), brk, arg[2]]) if op == "make_pair_table" else \
                         (op, [["+" if c == "+" else "d" for c in s2], list(s2)])
                    return disagree_one(rq)
                s = shrink(s, bad, gs.shrink_string, budget=60)
                cases.append({"s": s, "brk": brk if len(brk) == 1 else "+"})
        # strand tables: no strand contains an element equal to the break marker, and joining the strands gives back the
        # sequence up to empty strands (direct statement on the implementation)
        stf = []
        for d in [x for x in diffs if x[1][0] in ("make_strand_table_list", "make_strand_table_str")][:20]:
            seq, brk = d[1][1]
            r = run_impl([d[1]], jobs=1)[0]
            if isinstance(r, Err):
                continue
            runs, cur = [], []
            for x in seq:
                if x == brk:
                    runs.append(cur); cur = []
                else:
                    cur.append(x)
            runs.append(cur)
            want = [x for x in runs if x] if d[1][0] == "make_strand_table_list" else runs
            if any(brk in strand for strand in r) or [list(x) for x in r] != want:
                stf.append({"key": {"strand_table": d[1][1]}, "input": {"strand_table": [d[1][0], d[1][1]]},
                            "what": f"{d[1][0]}({seq!r}, strand_break={brk!r}) = {r!r}: not the sequence cut at every element equal to the break marker",
                            "snippet": f"from dsdobjects.complex_utils import make_strand_table; make_strand_table({seq!r}, strand_break={brk!r})"})
        # a pair table handed over as a one-shot iterator of rows must give what the list gives
        for d in [x for x in diffs if x[1][0] == "pair_table_to_dot_bracket_iter"][:10]:
            a_, b_ = run_impl([("pair_table_to_dot_bracket", d[1][1]), ("pair_table_to_dot_bracket_iter", d[1][1])], jobs=1)
            if a_ != b_:
                stf.append({"key": {"iter_table": d[1][1]}, "input": {"iter_table": d[1][1]},
                            "what": f"pair_table_to_dot_bracket gives {b_!r} for an iterator over the rows and {a_!r} for the list of rows",
                            "snippet": f"from dsdobjects.complex_utils import pair_table_to_dot_bracket as f; t = {d[1][1][0]!r}; "
                                       "print(f(t), f(iter(t)))"})
        # renderings of a strand table that disagree (or change the table they were given): the direct statement on a kept table
        rw = list(reuse_bad)
        for d in [x for x in diffs if x[1][0] in ("strand_table_to_sequence", "strand_table_to_sequence_reuse")][:6]:
            a_ = d[1][1] if d[1][0] == "strand_table_to_sequence_reuse" else [d[1][1][0], d[1][1][1], ["list"]]
            if not rw:
                w = reuse_witness(a_)
                if w:
                    rw.append(w)
        pre = pre + stf + rw + owned_bad
        # then the small-scope enumerator and the random stream against the oracle
        cases += [{"s": s, "brk": "+"} for s in strs] + [{"s": s, "brk": "+"} for s in rnd[:2000]]
        out = run_oracle("c06.py", {"cases": cases})
        found = []
        # the property quantifies over structures with non-empty strands: such witnesses first, short ones first
        out["failures"].sort(key=lambda f: (not all(f["s"].split(f["brk"])), len(f["s"])))
        for f in out["failures"][:10]:
            found.append({"key": {"s": f["s"]}, "input": f, "what": f["what"],
                          "snippet": f"from dsdobjects.complex_utils import *; make_pair_table({f['s']!r}, strand_break={f['brk']!r}); "
                                     f"rotate_complex_once([c if c=='+' else 'd' for c in {f['s']!r}], list({f['s']!r}))"})
        return pre + direct_odd + found

    conclude(ctx, res, runner, diffs, search)


def replay(data):
    inp = data.get("input")
    if not inp:
        print("replay file names a broken proof/correspondence link only:", json.dumps(data.get("broken_links"))[:2000])
        return 1
    if isinstance(inp, dict) and "members" in inp:
        r = run_impl([("make_pair_table_members", inp["members"])], jobs=1)[0]
        print(r)
        return 0 if (isinstance(r, Err) and r.kind == "SecondaryStructureError") else 1
    if isinstance(inp, dict) and "strand_table_reuse" in inp:
        r = run_impl([("strand_table_reuse_fault", inp["strand_table_reuse"])], jobs=1)[0]
        print(r)
        return 1 if (r or isinstance(r, Err)) else 0
    if isinstance(inp, dict) and "strand_table_owned" in inp:
        r = run_impl([("strand_table_owned_fault", inp["strand_table_owned"])], jobs=1)[0]
        print(r)
        return 1 if (r or isinstance(r, Err)) else 0
    if isinstance(inp, dict) and "history" in inp:
        r = run_impl([("c03_fresh_compare", inp["history"])], jobs=1)[0]
        print(r)
        return 1 if r else 0
    if isinstance(inp, dict) and "iter_table" in inp:
        a_, b_ = run_impl([("pair_table_to_dot_bracket", inp["iter_table"]), ("pair_table_to_dot_bracket_iter", inp["iter_table"])], jobs=1)
        print(a_, b_)
        return 1 if a_ != b_ else 0
    if isinstance(inp, dict) and "strand_table" in inp:
        op_, (seq, brk) = inp["strand_table"]
        r = run_impl([(op_, [seq, brk])], jobs=1)[0]
        print(r)
        return 1 if (isinstance(r, Err) or any(brk in strand for strand in r)) else 0
    out = run_oracle("c06.py", {"cases": [inp]})
    print(json.dumps(out))
    return 1 if out["failures"] else 0
