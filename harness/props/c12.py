"""C12 — kernel notation round-trips through the PIL reader."""
import json
from common import prove, ensure_model_runner, run_impl, Err
from corr import correspond
from flow import conclude
import gen_structs as gs

NAMES = ("a", "b", "c_1", "x-y", "d9", "A", "Z_", "7a", "q-", "-t", "-1", "_", "0")


def run(ctx):
    rng, quick = ctx.rng, ctx.tier == "quick"
    res = prove(ctx)
    runner = ensure_model_runner()
    diffs, found = [], []
    if runner.ok:
        structs = list(gs.all_wf(7 if quick else 9))
        if quick:
            structs = rng.sample(structs, min(len(structs), 1500))
        structs += [gs.random_wf(rng, rng.choice([20, 60, 200]), p_break=rng.choice([0.05, 0.2])) for _ in range(60 if quick else 1500)]
        structs += ["(" * k + "." + ")" * k for k in (1, 30, 50)] + ["()", "(+)", ".+.+."]
        reqs = []
        for s in structs:
            sq = gs.seq_for(rng, s, names=NAMES, complementary=True)
            reqs.append(("c12_chain", [sq, list(s)]))
        diffs += correspond(ctx, "kernel-chain", reqs)
        # token trees the real parser produced, plus damaged ones, through resolve_kernel_loops alone
        impl = run_impl(reqs[:800])
        toks = [r[1] for r in impl if not isinstance(r, Err)]
        rk = [("resolve_kernel_loops", t) for t in toks]
        for t in toks[:300]:
            t2 = json.loads(json.dumps(t))
            if t2:
                k = rng.randrange(len(t2))
                t2.insert(k, rng.choice([[], ["a"], "+", "", "*"]))
            rk.append(("resolve_kernel_loops", t2))
        diffs += correspond(ctx, "resolve_kernel_loops", rk)
        # the property itself on the implementation: every rotation reads back as itself, same singleton
        rt = [("c12_roundtrip", r[1]) for r in reqs[: (400 if quick else 6000)]]
        for rq, r in zip(rt, run_impl(rt)):
            if isinstance(r, Err) and r.kind == "RecursionError":
                continue          # CPython recursion limit (nesting depth > ~60): resource bound, see DESIGN.md 10
            if isinstance(r, Err) or not all(all(x) for x in r):
                found.append({"key": {"seq": rq[1][0], "struct": "".join(rq[1][1])}, "input": rq[1],
                              "what": f"writing the kernel string of some rotation and reading it back: {r!r} "
                                      "([same object, parsed description equal, read-back description equal, same through a rewritten file, the same parsed line read again by the reader and in a second reader configuration with the parse tree left as parsed] per rotation; a strand named like the first domain is alive meanwhile)",
                              "snippet": "from dsdobjects import *; from dsdobjects.objectio import *; set_io_objects(); "
                                         f"# build ComplexS from {rq[1]!r}, then read_pil_line('Y = ' + c.kernel_string); also [line] = parse_pil_string(...), read_pil_line(line) more than once"})
        ctx.cov["correspondence"]["roundtrip(impl)"] = {"cases": len(rt), "failures": len(found)}
    ctx.cov["rule"] = ("domain-level-complementary complexes over PIL-legal names: every well-formed structure up to the tier's "
                       "length bound (sampled in quick), random large/deep ones; the model chain kernel_string -> Gallina PEG "
                       "parse of the regenerated grammar -> resolve_kernel_loops is compared with the implementation's chain; "
                       "non-trivial = distinct agreed results")
    ctx.cov["partial"] = []
    if found and res["ok"] and not diffs:
        for f in found[:10]:
            ctx.violation("counterexample", f)
        return
    conclude(ctx, res, runner, diffs, lambda d: found)


def replay(data):
    inp = data.get("input")
    if not inp:
        print(json.dumps(data.get("broken_links"))[:2000]); return 1
    r = run_impl([("c12_roundtrip", inp)])[0]
    print(r)
    return 0 if (not isinstance(r, Err) and all(all(x) for x in r)) else 1
