"""C13 — PIL grammar: parsing inverts rendering, statement by statement."""
import pegprop
import pil_texts as pt


def build(ctx):
    """the generated streams; everything random comes from ctx.rng"""
    rng, quick = ctx.rng, ctx.tier == "quick"
    n_per_kind = 260 if quick else 6000
    S = {"valid": [], "reject": [], "ambiguous": [], "documents": [], "mutated": []}
    # (i) token trees per statement kind x layouts (several layouts per tree)
    for kind in pt.KINDS:
        for j in range(n_per_kind):
            size = [1, 2, 3, 4, 6, 10][j % 6] if quick else rng.choice([1, 2, 3, 4, 6, 10, 25])
            tree = pt.gen_tree(rng, kind, size)
            for _ in range(2 if j % 4 == 0 else 1):
                lex = pt.lexemes(rng, tree)
                S["valid"].append({"tree": tree, "text": pt.statement_text(rng, lex, eof=rng.random() < 0.15), "kind": kind})
            # (iii) malformed stream: single-fault mutations of a valid statement
            if j % 2 == 0:
                lex = pt.lexemes(rng, tree)
                for fault, lx, sure in pt.faults(rng, tree, lex):
                    c = {"text": pt.statement_text(rng, lx), "fault": fault, "kind": kind}
                    S["reject" if sure else "ambiguous"].append(c)
    # kernel complexes whose NAME starts with a statement keyword and whose pattern starts with `d( ... )`: no keyword
    # statement accepts an opening bracket there, so the text has exactly one reading and must round-trip
    for kw in pt.KEYWORDS:
        if kw in ("complex", "structure"):
            # the dot-bracket of the strand notations is a word over `( ) . +` and blanks: `complexT = d( + )` IS a strand-notation
            # complex named T with strand d (found by the thorough tier as a false alarm of this stream; the text is ambiguous)
            continue
        for _ in range(6 if quick else 60):
            t = pt.gen_tree(rng, "kernel-complex", 3)
            t[1] = kw + pt.ident(rng)
            t[2] = [pt.domain(rng), t[2]]
            S["valid"].append({"tree": t, "text": pt.statement_text(rng, pt.lexemes(rng, t), eof=False), "kind": "kernel-complex"})
    # keywords are case-sensitive: a kernel complex whose name starts with a keyword in ANOTHER case has one reading, whatever
    # its pattern looks like (`Sequence2 = N`, `LENGTH_a = 5`)
    for kw in pt.KEYWORDS:
        for cased in (kw.capitalize(), kw.upper()):
            for _ in range(3 if quick else 30):
                t = pt.gen_tree(rng, "kernel-complex", rng.choice([1, 2, 3]))
                t[1] = cased + pt.ident(rng)
                S["valid"].append({"tree": t, "text": pt.statement_text(rng, pt.lexemes(rng, t), eof=False), "kind": "kernel-complex"})
            # patterns that the keyword's own statement would accept as well, were the keyword matched in this case
            body = {"length": [["7"], ["short"]], "domain": [["15"], ["long"]], "sequence": [["NNN"], ["ACGT"]],
                    "strand": [["a", "b"], ["t"]], "sup-sequence": [["a", "b*"], ["t"]]}.get(kw)
            for pat in body or []:
                t = ["kernel-complex", cased + pt.ident(rng), list(pat)]
                S["valid"].append({"tree": t, "text": pt.statement_text(rng, pt.lexemes(rng, t), eof=False), "kind": "kernel-complex",
                                   "kwcase": True})
    # texts outside the round-trip guard (correspondence only): renderings of two trees
    for _ in range(200 if quick else 3000):
        r = rng.random()
        if r < 0.3:
            t = pt.gen_tree(rng, "kernel-complex", 3)
            t[1] = rng.choice(pt.KEYWORDS) + pt.ident(rng)
            lex = pt.lexemes(rng, t)
        elif r < 0.5:
            lex = [pt.L("kw", "sequence"), pt.SP1, pt.L("name", pt.domain(rng)), pt.SP0, pt.assign(rng), pt.SP0,
                   pt.L("word", rng.choice(["short", "long"]))]
        elif r < 0.75:
            t = pt.gen_tree(rng, rng.choice(pt.KINDS), 3)
            lex = [x for x in pt.lexemes(rng, t) if x != pt.SP1]      # keywords glued to names
        else:
            t = pt.gen_tree(rng, "reaction", 3)
            lex = [pt.SP0 if x == pt.SP1 else x for x in pt.lexemes(rng, t)]   # `A->B`
        S["ambiguous"].append({"text": pt.statement_text(rng, lex), "fault": "outside-guard", "kind": "ambiguous"})
    # (ii) documents: all statement orders are reached by sampling statements independently
    for _ in range(150 if quick else 3000):
        n = rng.choice([1, 2, 3, 5, 8, 20] if quick else [1, 2, 3, 5, 8, 20, 60])
        texts, trees = [], []
        for j in range(n):
            tree = pt.gen_tree(rng, rng.choice(pt.KINDS), rng.choice([1, 2, 4]))
            trees.append(tree)
            texts.append(pt.statement_text(rng, pt.lexemes(rng, tree), eof=(j == n - 1 and rng.random() < 0.2)))
        S["documents"].append({"prologue": pt.prologue(rng), "texts": texts, "trees": trees})
    # character-level mutations (validates the interpreter itself on mostly-rejected inputs)
    base = [c["text"] for c in S["valid"]]
    for _ in range(1500 if quick else 60000):
        s = pt.char_mutation(rng, rng.choice(base), pt.MUT_ALPHABET)
        if rng.random() < 0.2:
            s += rng.choice(base)
        S["mutated"].append({"text": s})
    return S


RULE = (
    "token trees of all 7 statement kinds (every keyword alias, both assignment signs, optional parts, identifiers over "
    "the full identifier alphabet incl. keyword-like and number-like names, integer/decimal/scientific numbers, nested "
    "kernel patterns) x random layouts (runs of blanks/tabs, comments, blank lines, LF/CRLF, last line without newline); "
    "documents of 1..20 statements; single-fault mutations (missing name / assignment sign, malformed number, unbalanced "
    "kernel brackets) that must be rejected; character-level mutations. ROUND-TRIP GUARD: the renderer never produces a "
    "text that an earlier ordered-choice alternative also accepts (keywords are followed by a blank, `sequence x = short|long` "
    "is never used for a dl-domain, kernel complex names do not start with a statement keyword, adjacent names are "
    "separated, the reaction arrow is preceded by a blank); such texts and name-less statements that read as a kernel "
    "complex named like the keyword (`length = 5`) are run in the stream `ambiguous` for model/implementation agreement only. "
    "non-trivial = distinct agreed token trees")

CFG = {"op": "parse_pil", "oracle": "c13.py", "dialect": "pil", "fn": "parse_pil_string", "fn_file": "parse_pil_file",
       "build": build, "norm_tree": pt.norm_tree, "rule": RULE, "kinds": pt.KINDS}


def run(ctx):
    CFG["partial"] = PARTIAL
    from common import replay_recorded_findings
    replay_recorded_findings(ctx, ["c13_missing_name"])
    pegprop.run(ctx, CFG)


def replay(data):
    return pegprop.replay(CFG, data)


PARTIAL = [
    "C13_roundtrip_structure_tabs / C13_roundtrip_complex_tabs carry the guard that the statement end does not start with a tab: a tab (like a blank) right after the dot-bracket is absorbed into the dot-bracket token (C13_structure_tab_after_dotbracket is the witness)",
    "rejection theorems (unbalanced / unclosed brackets, missing sign, malformed number) are stated for tab-free text",
    "C13_reject_missing_name: REFUTED (C13_reject_missing_name_refuted): `length = 5` is a kernel complex named `length`",
]
