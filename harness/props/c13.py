"""C13 — PIL grammar: parsing inverts rendering, statement by statement."""
import json
from common import prove, ensure_model_runner, run_oracle, run_model, run_impl, Err
from flow import conclude
from pegcorr import run_both, shrink_text
import pil_texts as pt

OP = "parse_pil"
ORACLE = "c13.py"
GEN = "gen_grammar"


def build(ctx):
    """the generated streams; everything random comes from ctx.rng"""
    rng, quick = ctx.rng, ctx.tier == "quick"
    n_per_kind = 260 if quick else 6000
    S = {"valid": [], "reject": [], "ambiguous": [], "documents": [], "mutated": []}
    # (i) token trees per statement kind x layouts (several layouts per tree)
    for kind in pt.KINDS:
        for j in range(n_per_kind):
            size = [1, 2, 3, 4, 6, 10][j % 6] if quick else rng.choice([1, 2, 3, 4, 6, 10, 25])
            tree = pt.gen_tree(rng, kind, size)
            for _ in range(2 if j % 4 == 0 else 1):
                lex = pt.lexemes(rng, tree)
                S["valid"].append({"tree": tree, "text": pt.statement_text(rng, lex, eof=rng.random() < 0.15), "kind": kind})
            # (iii) malformed stream: single-fault mutations of a valid statement
            if j % 2 == 0:
                lex = pt.lexemes(rng, tree)
                for fault, lx, sure in pt.faults(rng, tree, lex):
                    c = {"text": pt.statement_text(rng, lx), "fault": fault, "kind": kind}
                    S["reject" if sure else "ambiguous"].append(c)
    # texts outside the round-trip guard (correspondence only): renderings of two trees
    for _ in range(200 if quick else 3000):
        r = rng.random()
        if r < 0.3:
            t = pt.gen_tree(rng, "kernel-complex", 3)
            t[1] = rng.choice(pt.KEYWORDS) + pt.ident(rng)
            lex = pt.lexemes(rng, t)
        elif r < 0.5:
            lex = [pt.L("kw", "sequence"), pt.SP1, pt.L("name", pt.domain(rng)), pt.SP0, pt.assign(rng), pt.SP0,
                   pt.L("word", rng.choice(["short", "long"]))]
        elif r < 0.75:
            t = pt.gen_tree(rng, rng.choice(pt.KINDS), 3)
            lex = [x for x in pt.lexemes(rng, t) if x != pt.SP1]      # keywords glued to names
        else:
            t = pt.gen_tree(rng, "reaction", 3)
            lex = [pt.SP0 if x == pt.SP1 else x for x in pt.lexemes(rng, t)]   # `A->B`
        S["ambiguous"].append({"text": pt.statement_text(rng, lex), "fault": "outside-guard", "kind": "ambiguous"})
    # (ii) documents: all statement orders are reached by sampling statements independently
    for _ in range(150 if quick else 3000):
        n = rng.choice([1, 2, 3, 5, 8, 20] if quick else [1, 2, 3, 5, 8, 20, 60])
        texts, trees = [], []
        for j in range(n):
            tree = pt.gen_tree(rng, rng.choice(pt.KINDS), rng.choice([1, 2, 4]))
            trees.append(tree)
            texts.append(pt.statement_text(rng, pt.lexemes(rng, tree), eof=(j == n - 1 and rng.random() < 0.2)))
        S["documents"].append({"prologue": pt.prologue(rng), "texts": texts, "trees": trees})
    # character-level mutations (validates the interpreter itself on mostly-rejected inputs)
    base = [c["text"] for c in S["valid"]]
    for _ in range(1500 if quick else 60000):
        s = pt.char_mutation(rng, rng.choice(base), pt.MUT_ALPHABET)
        if rng.random() < 0.2:
            s += rng.choice(base)
        S["mutated"].append({"text": s})
    return S


def spec_failures(S, name, cases, impl):
    """the direct statement of the property on the implementation's answers"""
    out = []
    for c, b in zip(cases, impl):
        if name == "valid":
            want = [pt.norm_tree(c["tree"])]
            if pt.norm_result(b) != want:
                out.append({"kind": "roundtrip", "text": c["text"], "tree": c["tree"], "expected": want, "observed": repr(b)})
        elif name == "reject":
            if not (isinstance(b, Err) and b.kind == "ParseException"):
                out.append({"kind": "reject", "text": c["text"], "fault": c["fault"], "expected": "ParseException", "observed": repr(b)})
    return out


def run(ctx):
    rng, quick = ctx.rng, ctx.tier == "quick"
    res = prove(ctx)
    if ctx.gen.get(GEN):
        res["ok"] = False
        res["build"].excerpt = "translator failed (fail-closed): " + ctx.gen[GEN]
    runner = ensure_model_runner()
    diffs, spec = [], []
    S = build(ctx)
    if runner.ok:
        for name in ("valid", "reject", "ambiguous", "mutated"):
            d, m, i = run_both(ctx, name, [(OP, c["text"]) for c in S[name]])
            diffs += d
            spec += spec_failures(S, name, S[name], i)
        # documents: the document and each of its statements
        reqs, owner = [], []
        for k, dc in enumerate(S["documents"]):
            reqs.append((OP, dc["prologue"] + "".join(dc["texts"])))
            owner.append((k, None))
            for j, t in enumerate(dc["texts"]):
                reqs.append((OP, t))
                owner.append((k, j))
        d, m, i = run_both(ctx, "documents", reqs)
        diffs += d
        parts = {}
        for (k, j), b in zip(owner, i):
            parts.setdefault(k, {})[j] = b
        for k, dc in enumerate(S["documents"]):
            ps = [parts[k][j] for j in range(len(dc["texts"]))]
            want = [pt.norm_tree(t) for t in dc["trees"]]
            got = pt.norm_result(parts[k][None])
            cat = [pt.norm_tree(t) for p in ps if isinstance(p, list) for t in p]
            if got != want or cat != want:
                spec.append({"kind": "document", "prologue": dc["prologue"], "texts": dc["texts"],
                             "text": dc["prologue"] + "".join(dc["texts"]), "expected": want, "observed": repr(parts[k][None])})
    # files and parser histories need a file system / fresh processes: property oracle, always run
    extra = []
    for dc in S["documents"][: (40 if quick else 400)]:
        extra.append({"kind": "file", "text": dc["prologue"] + "".join(dc["texts"])})
    pool = [c["text"] for c in S["valid"][:200]] + [c["text"] for c in S["reject"][:100]]
    for _ in range(8 if quick else 60):
        before = [[rng.choice(["pil", "seesaw"]), rng.choice(pool + ["INPUT(1) = w[1,2]\n", "seesaw[", ""])]
                  for _ in range(rng.randint(1, 6))]
        extra.append({"kind": "history", "text": rng.choice(pool), "before": before})
    out = run_oracle(ORACLE, {"cases": extra})
    spec += out["failures"]
    ctx.cov["oracle_checked"] = out["checked"]
    ctx.cov["spec_checked_on_implementation"] = {"roundtrip": len(S["valid"]), "reject": len(S["reject"]),
                                                 "document": len(S["documents"]), "failures": len(spec)}
    ctx.cov["faults"] = {}
    for c in S["reject"]:
        ctx.cov["faults"][c["fault"]] = ctx.cov["faults"].get(c["fault"], 0) + 1
    ctx.cov["kinds"] = {k: sum(1 for c in S["valid"] if c["kind"] == k) for k in pt.KINDS}
    ctx.cov["rule"] = (
        "token trees of all 7 statement kinds (every keyword alias, both assignment signs, optional parts, identifiers over "
        "the full identifier alphabet incl. keyword-like and number-like names, integer/decimal/scientific numbers, nested "
        "kernel patterns) x random layouts (runs of blanks/tabs, comments, blank lines, LF/CRLF, last line without newline); "
        "documents of 1..20 statements; single-fault mutations (missing name / assignment sign, malformed number, unbalanced "
        "kernel brackets) that must be rejected; character-level mutations. ROUND-TRIP GUARD: the renderer never produces a "
        "text that an earlier ordered-choice alternative also accepts (keywords are followed by a blank, `sequence x = short|long` "
        "is never used for a dl-domain, kernel complex names do not start with a statement keyword, adjacent names are "
        "separated, the reaction arrow is preceded by a blank); such texts and name-less statements that read as a kernel "
        "complex named like the keyword (`length = 5`) are run in the stream `ambiguous` for model/implementation agreement only. "
        "non-trivial = distinct agreed token trees")
    pseudo = [(0, ("spec:" + f["kind"], f.get("text", "")), f.get("expected"), f.get("observed")) for f in spec[:5]]

    def search(_):
        found = []
        for f in spec[:10]:
            found.append(witness(f))
        # shrink real model/implementation disagreements and look at them with the oracle
        cases = []
        for d in diffs[:3]:
            def bad(t):
                a, b = run_model([(OP, t)], jobs=1)[0], run_impl([(OP, t)], jobs=1)[0]
                return a != b
            cases.append({"kind": "file", "text": shrink_text(d[1][1], bad, budget=80)})
        cases += [{"kind": "roundtrip", "text": c["text"], "tree": c["tree"]} for c in S["valid"]]
        cases += [{"kind": "reject", "text": c["text"], "fault": c["fault"]} for c in S["reject"]]
        cases += [{"kind": "document", "prologue": c["prologue"], "texts": c["texts"]} for c in S["documents"]]
        out = run_oracle(ORACLE, {"cases": cases})
        for f in out["failures"][:10]:
            found.append(witness(f))
        return found

    conclude(ctx, res, runner, diffs + pseudo, search)


def snippet_for(f, fn="parse_pil_string", fn_file="parse_pil_file"):
    k = f["kind"]
    if k == "document":
        return (f"from dsdobjects.dsdparser import {fn} as p; texts = {f['texts']!r}; "
                f"print(p({f.get('prologue', '') !r} + ''.join(texts))); print([t for x in texts for t in p(x)])")
    if k == "history":
        return (f"import dsdobjects.dsdparser as dp; [dp.__dict__['parse_%s_string' % d] for d, t in {f['before']!r}]; "
                f"print(dp.{fn}({f['text']!r}))")
    if k == "file":
        return (f"from dsdobjects.dsdparser import {fn}, {fn_file}; open('/tmp/c.pil','w',newline='').write({f['text']!r}); "
                f"print({fn_file}('/tmp/c.pil')); print({fn}(open('/tmp/c.pil').read()))")
    return f"from dsdobjects.dsdparser import {fn}; print({fn}({f['text']!r}))   # expected {f.get('expected')!r}"


def witness(f):
    key = {"kind": f["kind"], "text": f.get("text", "")}
    if f.get("fault"):
        key["fault"] = f["fault"]
    return {"key": key, "input": f, "what": f.get("what") or f"{f['kind']}: expected {f.get('expected')!r}, observed {f.get('observed')!r}",
            "snippet": snippet_for(f)}


def replay(data, oracle=ORACLE):
    f = data.get("input")
    if not f:
        print("replay names a broken link only:", json.dumps(data.get("broken_links"))[:2000])
        return 1
    case = dict(f)
    out = run_oracle(oracle, {"cases": [case]})
    print(json.dumps(out))
    return 1 if out["failures"] else 0
