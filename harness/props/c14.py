"""C14 — the PIL reader builds exactly the declared system.

Theorems about the Gallina reader model (coq/props/C14.v); the model is tied to the current tree by
(i) the regenerated grammar, IUPAC tables and reader constants it is built on and (ii) differential
correspondence  text -> Gallina PEG parse -> reader model -> dictionary  vs  the real read_pil, on
generated consistent systems (every notation, shuffled declaration-respecting orders, layouts), on a
small-scope exhaustive family of short documents, on the C16 fault streams (so that error outcomes
correspond too), with user classes in the reader slots and documents read before, on the registries, and after
documents that re-declare the same names with another meaning were read and released in the same session.
The oracle (harness/oracles/c14.py) states C14 directly on the implementation; it is used to find a
failing input once a theorem or the correspondence has broken."""
import itertools, json
import common
from common import prove, ensure_model_runner, run_oracle, run_impl, run_model, Err
from corr import correspond, shrink, disagree_one
from flow import conclude
import gen_pil, gen_reader
from props import c16 as c16mod

TAG = {"domain": None, "strand": "composite-domain", "macrostate": "resting-macrostate", "reaction": "reaction"}
KINDS = ["dl-domain", "sl-domain", "composite-domain", "strand-complex", "kernel-complex", "resting-macrostate", "reaction"]


def stmt_tag(S, item):
    kind, key = item
    if kind == "domain":
        return "sl-domain" if S.domains[key][1] is not None else "dl-domain"
    if kind == "complex":
        return "strand-complex" if S.complexes[key][3] == "strand" else "kernel-complex"
    return TAG[kind]


def render_doc(S, rng, order, layout=True):
    """document text and its statements one by one (same rendering)"""
    stmts, lines = [], []
    for item in order:
        st = gen_pil.render_stmt(S, item, rng, layout)
        stmts.append([stmt_tag(S, item), st])
        line = st
        if layout and rng.random() < 0.2:
            line += "  # " + rng.choice(["comment", "x = y", "length q = 3"])
        lines.append(line)
        if layout and rng.random() < 0.15:
            lines.append(rng.choice(["", "# a comment line", "   "]))
    return "\n".join(lines) + "\n", stmts


def second_system(S, rng):
    """the same system with other concentration triples on its kernel-notation complexes"""
    import copy
    S2 = copy.deepcopy(S)
    for n, (sq, st, conc, notation) in list(S2.complexes.items()):
        if notation == "strand":
            continue
        while True:
            c2 = (rng.choice(["initial", "constant"]), rng.choice([0, 7, 2.5, 1e-7, 100]), rng.choice(gen_pil.CUNITS))
            if conc is None or tuple(conc) != c2:
                break
        S2.complexes[n] = (sq, st, c2, notation)
    return S2


def released_history(S, rng):
    """one or two documents to be read and RELEASED before a document of S in the same session: the names of S declared
    with another meaning (gen_pil.permuted_names: domains, strands / composite domains, complexes and macrostates exchange
    their names), sometimes with one fault (the read fails half-way)"""
    docs = []
    for _ in range(rng.randrange(1, 3)):
        T = gen_pil.permuted_names(S, rng)
        text = gen_pil.render(T, rng, layout=False, order=gen_pil.shuffled_order(T, rng))
        if rng.random() < 0.25:
            cs = c16mod.corruptions(rng, T, n_each=1)
            if cs:
                text = rng.choice(cs)[1]
        docs.append(text)
    return docs


def _fixed(text, lengths, strands, complexes):
    doms = {}
    for n, L in lengths.items():
        doms[n] = [L, None]
        doms[n + "*"] = [L, None]
    return {"text": text, "stmts": [["x", l] for l in text.splitlines()],
            "expected": {"domains": doms, "strands": strands,
                         "complexes": {n: [sq.split(), list(st), None] for n, (sq, st) in complexes.items()},
                         "macrostates": {}, "reactions": []}}


# one composite domain used several times in ONE kernel string, as itself and as its complement, in every order
FIXED_SYSTEMS = [_fixed(
    "length x = 3\nlength b = 4\nlength y = 5\nlength a = 6\nsup-sequence xby = x b y\n"
    "H = xby( a ) + xby\nK = xby*( a + )\nL = xby xby*( + ) xby\nM = xby* + xby xby* a xby\nN = xby( xby*( a ) ) xby*\n",
    {"x": 3, "b": 4, "y": 5, "a": 6}, {"xby": ["x", "b", "y"]},
    {"H": ("x b y a y* b* x* + x b y", "(((.)))+..."),
     "K": ("y* b* x* a + x b y", "(((.+)))"),
     "L": ("x b y y* b* x* + x b y x b y", "...(((+)))..."),
     "M": ("y* b* x* + x b y y* b* x* a x b y", "...+.........."),
     "N": ("x b y y* b* x* a x b y y* b* x* y* b* x*", "((((((.))))))...")})]
for _f in FIXED_SYSTEMS:
    del _f["stmts"]
# ... after the same document with another composition of the composite domain was read and released
FIXED_SYSTEMS[0]["released_before"] = [FIXED_SYSTEMS[0]["text"].replace("xby = x b y", "xby = y x b")]


def system(rng, big=False):
    if big:
        return gen_pil.make_system(rng, n_dom=rng.randrange(3, 9), n_cplx=rng.randrange(3, 10), n_strands=rng.randrange(0, 5),
                                   n_macro=rng.randrange(0, 5), n_rxn=rng.randrange(0, 8), sizes=(1, 14),
                                   p_strand_notation=0.3, p_composite=0.5)
    return gen_pil.make_system(rng, n_cplx=rng.randrange(1, 6), p_strand_notation=0.3, p_composite=0.5)


# small-scope family: every document of at most `depth` statements over this pool
POOL = ["length a = 5", "length a = short", "domain a* : 6", "sequence b = AC", "sequence b = ACGN : 4", "sequence c = AX",
        "strand s = a b*", "sup-sequence s = a", "X = a", "X = a( b )", "Y = s", "Y = a( + ) b @i 5 nM", "Y = s*( ) @c 1e-3 M",
        "structure Z = s : ..", "structure Z = s + s : (.+.)", "state X = [X]", "state Y = [X, Y]",
        "reaction [open = 1 /s] X -> Y", "reaction [condensed = 2.5e3 /M/s] X + X -> X", "reaction X -> Y",
        "reaction [weird = 3 /s] X -> X"]
POOL_QUICK = [0, 2, 3, 6, 8, 9, 10, 12, 13, 15, 17, 18, 19]

# class-slot configurations over the registry zoo (indices of harness/impl/registry.py:ZOO)
# D S C M R ; DomA=5 DomAA=6 DomB=7 CplxA=10 CplxAA=11 CplxB=12 StrandA=15 MacA=17 MacAA=18 RxnA=20
CONFIGS = [[0, 2, 1, 3, 4], [5, 2, 1, 3, 4], [6, 15, 11, 18, 20], [7, 15, 12, 17, 20], [5, 15, 10, 17, 4],
           [0, 15, 1, 3, 4], [0, 2, 12, 3, 20], [7, 2, 1, 18, 4], [None, None, None, None, None]]


def run(ctx):
    rng, quick = ctx.rng, ctx.tier == "quick"
    genfail = None
    try:
        with common.BuildLock():
            ctx.cov["generated"]["gen_reader"] = "ok"
            gen_reader.generate()
    except Exception as e:                      # fail-closed: the broken tie is reported below
        genfail = repr(e)
        ctx.cov["generated"]["gen_reader"] = genfail
    # reader behaviour that depends on the configured classes (reaction types of the configured Reaction class,
    # composite-domain look-ups through the configured Strand class): stated directly on the implementation
    from common import run_oracle as _ro
    _x = _ro("c15_extra.py", {"seed": ctx.seed, "n": 40 if quick else 600})
    for f in _x["failures"]:
        ctx.violation("counterexample", {"key": {"extra": f["steps"]}, "input": f["steps"], "what": "; ".join(f["what"]),
                                         "snippet": "# harness/oracles/c15_extra.py, steps: " + repr(f["steps"])})
    import time as _t
    t0 = _t.time()
    res = prove(ctx)
    ctx.cov["phase_s"] = {"prove": round(_t.time() - t0, 1)}
    if genfail:
        res["ok"] = False
        res["build"].excerpt = "translator gen_reader failed (fail-closed): " + genfail
    runner = ensure_model_runner()
    diffs, found, systems = [], [], {}
    ocases, osys = [], []
    if runner.ok:
        # 1. consistent systems: every notation, shuffled orders, layouts
        reqs = []
        n_sys = 250 if quick else 6000
        for k in range(n_sys):
            S = system(rng, big=(k % 5 == 0))
            order = gen_pil.shuffled_order(S, rng)
            text, stmts = render_doc(S, rng, order, layout=(k % 4 != 0))
            exp = gen_pil.expected(S)
            systems[text] = {"text": text, "stmts": stmts, "expected": exp}
            reqs.append(("read_pil_model", [text, None]))
            if k % 3 == 0:
                ig = rng.sample(KINDS, rng.randrange(1, 3))
                reqs.append(("read_pil_model", [text, ig]))
                systems[text + "\0" + ",".join(ig)] = {"text": text, "stmts": stmts, "ignore": ig}
            if k < (40 if quick else 500):
                oc = dict(systems[text])
                oc["ignore_kinds"] = rng.sample(KINDS, 2)
                oc["files"] = (k % 3 == 0)      # the documents of this case are also read from files rewritten in place
                S2 = second_system(S, rng)
                oc["second"] = {"text": gen_pil.render(S2, order=order), "expected": gen_pil.expected(S2)}
                ocases.append(oc)
                osys.append(S)
        diffs += correspond(ctx, "consistent-systems", reqs)
        # 2. small scope: every short document over the pool
        pool = [POOL[i] for i in POOL_QUICK] if quick else POOL
        depth = 3
        reqs = [("read_pil_model", ["".join(s + "\n" for s in d), None])
                for n in range(1, depth + 1) for d in itertools.product(pool, repeat=n)]
        if not quick:
            reqs += [("read_pil_model", ["".join(s + "\n" for s in d), None])
                     for d in (rng.sample(POOL, 4) for _ in range(20000))]
        diffs += correspond(ctx, f"small-scope-depth-{depth}", reqs)
        # 3. fault streams of C16 (single-fault corruptions, token mutations): error outcomes correspond
        reqs = []
        for _ in range(40 if quick else 1000):
            S = gen_pil.make_system(rng)
            valid = gen_pil.render(S)
            for kind, text in c16mod.corruptions(rng, S):
                reqs.append(("read_pil_model", [text, None]))
            for kind, text in c16mod.token_mutations(rng, valid, 3 if quick else 10):
                reqs.append(("read_pil_model", [text, None]))
        reqs += [("read_pil_model", [t, None]) for t in ("X = +\n", "A = + +\n", "structure S = + : .\n", "structure X = + : +\n",
                                                        "length a = 5\nstrand s = a\nstructure S = + : .\n",
                                                        "length a = 5\nX = a +\nY = + a\nZ = a + + a\n", "sequence a = acgt\n",
                                                        "length a = 0\nX = a a*\nlength a = 3\n", "length a* = 4\nX = a^ a^*\n")]
        reqs += [("read_pil_model", [t, None]) for _k, t in c16mod.FIXED_DOCUMENTS]      # huge and zero lengths
        diffs += correspond(ctx, "fault-streams", reqs)
        # 4. user classes in the reader slots, a document read and held before, registries, release
        ctab = run_impl([("registry_classes", None)])[0]
        cnames = run_impl([("registry_class_names", None)])[0]
        reqs = []
        for k in range(120 if quick else 3000):
            S = system(rng)
            text = gen_pil.render(S, rng, layout=False, order=gen_pil.shuffled_order(S, rng))
            cfgs = CONFIGS[k % len(CONFIGS)]
            prelude = None
            if k % 3 == 1:
                P = gen_pil.make_system(rng, n_cplx=2, n_rxn=1)
                prelude = gen_pil.render(P)
            if k % 4 == 2:
                cs = c16mod.corruptions(rng, S, n_each=1)
                if cs:
                    text = rng.choice(cs)[1]
            reqs.append(("read_pil_cfg", [ctab, cnames, cfgs, prelude, text, None]))
        diffs += correspond(ctx, "configured-classes", reqs)
        # 5. the hypothesis of C14_reader_builds on generated systems: the statements of every base system
        #    (every notation: kernel strings with composite-domain names, strand notation) form a consistent system
        #    (model: consistentb = True; the implementation side answers that read_pil returned a dictionary)
        reqs = []
        for k in range(150 if quick else 4000):
            big = (k % 5 == 0)
            psn, pco = (0.0, 0.0) if k % 3 == 0 else (0.3, 0.5)
            S = (gen_pil.make_system(rng, n_dom=rng.randrange(3, 9), n_cplx=rng.randrange(3, 10), n_strands=rng.randrange(0, 5),
                                     n_macro=rng.randrange(0, 5), n_rxn=rng.randrange(0, 8), sizes=(1, 14),
                                     p_strand_notation=psn, p_composite=pco) if big
                 else gen_pil.make_system(rng, n_cplx=rng.randrange(1, 6), p_strand_notation=psn, p_composite=pco))
            text, _ = render_doc(S, rng, gen_pil.shuffled_order(S, rng), layout=(k % 4 != 0))
            reqs.append(("reader_consistent", [text]))
        diffs += correspond(ctx, "consistent-accepted", reqs)
        # ... and on corrupted systems only the implication is claimed: consistent (model) => read (implementation)
        reqs = []
        for _ in range(30 if quick else 600):
            S = gen_pil.make_system(rng)
            reqs += [("reader_consistent", [text]) for kind, text in c16mod.corruptions(rng, S)]
        mres, ires = run_model(reqs), run_impl(reqs)
        bad = [(k, rq, a, b) for k, (rq, a, b) in enumerate(zip(reqs, mres, ires)) if a is True and b is not True]
        ctx.cov["correspondence"]["consistent-implies-read(corrupted)"] = {
            "cases": len(reqs), "disagreements": len(bad),
            "outcomes": {"model-consistent": sum(1 for a in mres if a is True),
                         "model-not-consistent": sum(1 for a in mres if a is False),
                         "model-other": sum(1 for a in mres if a is not True and a is not False),
                         "impl-read": sum(1 for b in ires if b is True),
                         "impl-refused": sum(1 for b in ires if b is not True)}}
        ctx.add_eval(len(reqs), 2)
        diffs += bad
        # 6. ignore at the document level and sessions that hold an earlier result: the model answers the computed side
        #    conditions of C14_reader_builds_ignore / C14_reader_builds_second_read (True => both reads succeed and shared
        #    names are the held objects); only the implication is claimed
        reqs = []
        for k in range(60 if quick else 1500):
            S = system(rng, big=(k % 5 == 0))
            order = gen_pil.shuffled_order(S, rng)
            text, _ = render_doc(S, rng, order, layout=(k % 2 == 0))
            reqs.append(("reader_kept_consistent", [text, rng.sample(KINDS, rng.randrange(1, 3))]))
            reqs.append(("reader_kept_consistent", [text, [rng.choice(["reaction", "resting-macrostate"])]]))
            reqs.append(("reader_session", [text, text]))                                   # the same document again
            text2, stmts2 = render_doc(S, rng, gen_pil.shuffled_order(S, rng), layout=False)  # another order
            reqs.append(("reader_session", [text, text2]))
            # a part of the system, another concentration, then something new that uses what is held
            part = [st for _, st in stmts2 if rng.random() < 0.6]
            part = [(l.split("@")[0] + "@c 7 uM") if ("@" in l and rng.random() < 0.7) else l for l in part]
            dn = next(iter(S.domains))
            part += ["length zq%d = 4" % k, "ZQ%d = zq%d %s" % (k, k, dn), "state ZQ%d = [ZQ%d]" % (k, k)]
            reqs.append(("reader_session", [text, "\n".join(part) + "\n"]))
        mres, ires = run_model(reqs), run_impl(reqs)
        bad = [(k, rq, a, b) for k, (rq, a, b) in enumerate(zip(reqs, mres, ires)) if a is True and b is not True]
        for opn in ("reader_kept_consistent", "reader_session"):
            idx = [k for k, rq in enumerate(reqs) if rq[0] == opn]
            ctx.cov["correspondence"]["%s(implication)" % opn] = {
                "cases": len(idx), "disagreements": sum(1 for (k, _, _, _) in bad if reqs[k][0] == opn),
                "outcomes": {"model-true": sum(1 for k in idx if mres[k] is True),
                             "model-false": sum(1 for k in idx if mres[k] is False),
                             "model-other": sum(1 for k in idx if mres[k] is not True and mres[k] is not False),
                             "impl-true": sum(1 for k in idx if ires[k] is True),
                             "impl-other": sum(1 for k in idx if ires[k] is not True)}}
        ctx.add_eval(len(reqs), 2)
        diffs += bad
        # 7. one session, documents read and RELEASED before: the names of the system declared with another meaning
        #    (sometimes with a fault); the model reads the document in a fresh session - nothing may be remembered
        reqs, ireqs = [], []
        for k in range(50 if quick else 2500):
            S = system(rng, big=(k % 6 == 0))
            text, stmts = render_doc(S, rng, gen_pil.shuffled_order(S, rng), layout=(k % 3 == 0))
            systems.setdefault(text, {"text": text, "stmts": stmts, "expected": gen_pil.expected(S)})
            reqs.append(("read_pil_model", [text, None]))
            ireqs.append(("read_pil_after_released", [released_history(S, rng), text, None]))
        diffs += correspond(ctx, "after-released-documents", reqs, impl_reqs=ireqs)
        for oc, S in zip(ocases, osys):        # the oracle states the same on its systems
            oc["released_before"] = released_history(S, rng)
    ctx.cov["phase_s"]["correspond"] = round(_t.time() - t0 - ctx.cov["phase_s"]["prove"], 1)
    t1 = _t.time()
    # the property itself on the implementation (support for the witness search; run on every run)
    ocases += FIXED_SYSTEMS
    for fc in FIXED_SYSTEMS:          # the model reads them too (whole-reader correspondence)
        if runner.ok:
            diffs += correspond(ctx, "fixed-systems", [("read_pil_model", [fc["text"], None])])
    out = run_oracle("c14.py", {"cases": ocases}) if ocases else {"failures": []}
    ctx.cov["oracle(impl)"] = {"systems": len(ocases), "failures": len(out["failures"])}
    ctx.cov["phase_s"]["oracle"] = round(_t.time() - t1, 1)
    for f in out["failures"][:10]:
        found.append(witness(f))
    ctx.cov["rule"] = ("consistent systems generated from a model (domains with lengths or IUPAC sequences, strands, complexes in "
                       "kernel / structure / complex notation, composite-domain names and their complements inside kernel strings, "
                       "concentrations, macrostates, detailed and condensed reactions of every type), rendered in a random "
                       "declaration-respecting order with random layout, with and without `ignore`; every document of at most 3 "
                       "statements over a pool of 13 (quick) / 21 statements; the 30 single-fault corruption kinds and token "
                       "mutations of C16; the same with user classes in the reader slots and a held earlier read; generated "
                       "systems after one or two documents that declare the same names with another meaning (names exchanged "
                       "among domains / strands / complexes, sometimes with a fault) were read and released in the same session "
                       "(op read_pil_after_released vs the model's fresh read); the model "
                       "chain text -> PEG parse -> reader model is compared with read_pil; distinct = distinct agreed results; "
                       "op reader_consistent: the computed consistency (hypothesis of C14_reader_builds) is True on every generated "
                       "system of every notation, and on corrupted systems consistent (model) implies read (implementation)")
    ctx.cov["partial"] = PARTIAL

    def search(ds):
        s = list(found)
        cases = []
        for d in ds[:6]:
            op, arg = d[1]
            if op == "read_pil_after_released":
                if arg[1] in systems:
                    c = {k: v for k, v in systems[arg[1]].items() if k != "stmts"}
                    c["released_before"] = arg[0]
                    cases.append(c)
                continue
            text = arg[0] if op == "read_pil_model" else arg[4]
            ign = arg[1] if op == "read_pil_model" else arg[5]
            key = text if not ign else text + "\0" + ",".join(ign)
            if key in systems:
                cases.append(systems[key])
                if key != text and text in systems:
                    cases.append(systems[text])
            elif op == "read_pil_model":
                # shrink by deleting lines while model and implementation still disagree
                def cands(rq):
                    ls = rq[1][0].split("\n")
                    for i in range(len(ls) - 1):
                        yield (rq[0], ["\n".join(ls[:i] + ls[i + 1:]), rq[1][1]])
                small = shrink(d[1], disagree_one, cands, budget=60)
                cases.append({"text": small[1][0], "stmts": [["?", l] for l in small[1][0].split("\n") if l.strip()]})
        if cases:
            o = run_oracle("c14.py", {"cases": cases})
            for f in o["failures"][:10]:
                s.append(witness(f))
        return s

    if found and res["ok"] and not diffs:
        for f in found[:10]:
            ctx.violation("counterexample", f)
        return
    conclude(ctx, res, runner, diffs, search)


def witness(f):
    c = f["case"]
    before = ""
    if c.get("released_before") and f["what"].startswith("released-before"):
        before = ("import gc\nfor e in " + repr(c["released_before"]) + ":\n    try: read_pil(e)\n    except Exception: pass\n"
                  "    gc.collect()\n")
    if f["what"].startswith("file-reread"):
        return {"key": {"what": f["what"].split(":")[0]}, "input": c, "what": f["what"],
                "snippet": "# harness/oracles/c14.py files_in_place; the essence:\n"
                           "import os\nfrom dsdobjects.objectio import *\n"
                           "docs = " + repr([c["text"], (c.get("second") or {}).get("text") or
                                             (c.get("released_before") or ["<the text with its numbers changed>"])[0]]) + "\n"
                           "size = max(map(len, docs)) + 2\nouts = []\n"
                           "for t in docs:   # one path, same size, same second\n"
                           "    open('system.pil', 'w').write(t + '#' + 'p' * (size - len(t) - 2) + '\\n')\n"
                           "    os.utime('system.pil', (1600000000, 1600000000)); clear_io_objects(); set_io_objects()\n"
                           "    outs.append(read_pil('system.pil', is_file=True))\n"
                           "# outs[1] must be the system declared by docs[1], not the one declared by docs[0]"}
    return {"key": {"what": f["what"].split(":")[0]}, "input": c, "what": f["what"],
            "snippet": "from dsdobjects.objectio import *; set_io_objects()\n" + before + "out = read_pil(" + repr(c["text"]) +
                       (", ignore=" + repr(c["ignore"]) if c.get("ignore") else "") + ")"}


PARTIAL = [
    "reader_builds_full: for every abstract consistent system rendered to token trees in any declaration-respecting order the "
    "result dictionary equals the system field by field.  PROVED (C14_consistent_system_never_refused, C14_reader_builds, "
    "C14_result_keys_are_the_declared_names, C14_reader_builds_any_order) for systems of domains (lengths or sequences), strands, "
    "complexes in kernel notation (with composite-domain names and their complements, with concentrations) and in strand "
    "notation (`structure` / `complex`), macrostates, reactions of every type and lines that are returned as they are, read in a "
    "fresh session with classes whose __init__ does not raise: never refused, every statement has built exactly its objects "
    "(Built; for complexes the (sequence, structure) the statement denotes, rd_cplx), the keys of every dictionary are exactly "
    "the declared names, every filed reaction belongs to a reaction statement, `other` is the list of the remaining lines; "
    "consistency is a computation (consistentb) that the op reader_consistent evaluates to True on every generated system.  "
    "With `ignore`: read_pil(text, ignore) is read_pil of the remaining lines, so the same holds whenever the remaining "
    "statements are consistent (reader_builds_ignore).  In sessions that hold objects (reader_builds_session): for sessions "
    "described by statements (e.g. left by earlier reads) and documents whose statements are returned as they are, re-declare "
    "with the same description (kernel statements may set another concentration) or are new and admissible (session_from): "
    "never refused, declared names map to the held objects, the session stays described.  NOT proved "
    "(reader_builds_session_partial): re-declarations that change a sequence (a `length` domain re-declared with a sequence) "
    "or a rate constant, a complex declared in strand notation re-declared with a concentration, held objects that no "
    "statement describes (a domain whose complement was released, complexes with string elements), and the sorted `view` of "
    "the dictionary (compared with gen_pil.expected on every generated system)",
    "grammar_shape_full: every line the PEG interpreter returns on the regenerated PIL grammar satisfies line_okb (the hypothesis "
    "of C14_reader_no_fault / C14_reader_classes / C14_failed_read_keeps_held): PROVED, but in the property file of C16 "
    "(C16_grammar_shape, Proofs/PilShape.v), not repeated here; the model op still answers BadShape for a parsed line that "
    "violates it, so every document of every correspondence run checks it as well",
    "reader_declared_only_full: a refused read raises a kind of the declared list (proved: the kind is none of the interpreter-"
    "level fault kinds; the model-level kinds OutOfFuel / BadRequest / Unmodelled / UserInitError are not excluded by a theorem, "
    "the correspondence treats the first three as disagreements)",
]


def replay(data):
    inp = data.get("input")
    if not inp or "text" not in inp:
        print("broken link:", json.dumps(data.get("broken_links"))[:2000])
        return 1
    out = run_oracle("c14.py", {"cases": [inp]})
    print(json.dumps(out)[:4000])
    return 1 if out["failures"] else 0
