"""C10 — equality, hashing, ordering and read-only identity."""
import json
import re
from common import prove, ensure_model_runner, run_impl, run_model, Err
from flow import conclude
import gen_structs as gs
import gen_pil


NAME_TAILS = ("1", "2", "10", "1a", "1b", "01", "2*", "10*", "1*", "9", "11", "100", "2A", "1_", "", "*", "1-2", "1.5")


def name_families(rng):
    """lists of names that share a prefix and differ in an index / suffix (automatic names, split sub-domains, complements)"""
    fams = [[p + t for t in NAME_TAILS if p + t not in ("", "*")] for p in ("d", "", "t_")]
    # a generated family: random prefix, random indices of 1-3 digits, some with a letter suffix or a complement marker
    p = "".join(rng.choice("abXY_") for _ in range(rng.randrange(1, 3)))
    idx = [str(rng.randrange(10 ** rng.randrange(1, 4))) for _ in range(8)]
    fams.append(sorted({p + i + rng.choice(["", "", "*", "a", "b"]) for i in idx} | {p + i for i in idx[:3]}))
    return fams


def stem(name):
    return re.match(r"[^0-9]*", name).group(0).rstrip("*")


def family_of(rng, specs, a):
    """members of the domain population whose name is related to that of `a` (same leading non-digit part)"""
    return [x for x in specs if stem(x[0]) == stem(a[0])]


def order_key(kind, key):
    return key[0] if kind == "domain" else key


def check_order(kind, r):
    """direct statement on several objects alive together: <= is total and transitive, < is its strict part, equal objects
    are equivalent, and sorted()/min()/max() of every arrangement give the ascending order of the canonical forms"""
    keys, first, rel, arr_perm = r[0], r[1], r[2], r[3]
    n = len(keys)
    EQ, NE, LT, LE, GT, GE = range(6)
    for i in range(n):
        for j in range(n):
            o, b = rel[i][j], rel[j][i]
            if not (o[LE] or b[LE]):
                return f"neither x <= y nor y <= x for x={keys[i]} y={keys[j]}"
            if o[LT] != (o[LE] and not b[LE]) or o[GT] != b[LT] or o[GE] != b[LE] or o[NE] == o[EQ] or o[EQ] != b[EQ]:
                return f"operators incoherent on x={keys[i]} y={keys[j]}: {o} / {b}"
            if o[EQ] and not (o[LE] and b[LE]):
                return f"equal objects are not equivalent in the order: {keys[i]} {keys[j]}"
            if o[EQ] != (keys[i] == keys[j]):
                return f"== is {o[EQ]} on canonical forms {keys[i]} {keys[j]}"
            for k in range(n):
                if o[LE] and rel[j][k][LE] and not rel[i][k][LE]:
                    return f"not transitive: {keys[i]} <= {keys[j]} <= {keys[k]} but not {keys[i]} <= {keys[k]}"
                if o[LT] and rel[j][k][LT] and not rel[i][k][LT]:
                    return f"not transitive: {keys[i]} < {keys[j]} < {keys[k]} but not {keys[i]} < {keys[k]}"
    return None


def check_sorted(kind, r, perms):
    keys, first, rel, arr_perm = r[0], r[1], r[2], r[3]
    seen = {}
    for p, (srt, mn, mx, rev) in zip(perms, arr_perm):
        oks = [order_key(kind, keys[i]) for i in p]
        got = [order_key(kind, keys[i]) for i in srt]
        if got != sorted(oks):
            return f"sorted() of the arrangement {[keys[i] for i in p]} gives {[keys[i] for i in srt]}"
        if [order_key(kind, keys[i]) for i in rev] != sorted(oks, reverse=True):
            return f"sorted(reverse=True) of the arrangement {[keys[i] for i in p]} gives {[keys[i] for i in rev]}"
        if order_key(kind, keys[mn]) != min(oks) or order_key(kind, keys[mx]) != max(oks):
            return f"min()/max() of the arrangement {[keys[i] for i in p]} give {keys[mn]} / {keys[mx]}"
        seen.setdefault(json.dumps(sorted(first[i] for i in p)), set()).add(json.dumps(got))
    if any(len(v) > 1 for v in seen.values()):
        return "sorted() depends on the order of its input"
    return None


def order_cases(rng, pop, quick):
    """tuples of 3-6 objects of one kind and arrangements of them"""
    cases = []
    per_kind = {"domain": 60, "complex": 25, "macrostate": 15, "reaction_c": 15, "reaction_m": 10}
    for kind, specs in pop.items():
        for _ in range(per_kind[kind] * (1 if quick else 10)):
            n = rng.randrange(3, 7 if kind == "domain" else 5)
            a = rng.choice(specs)
            pool = specs
            if kind == "domain" and rng.random() < 0.75:
                pool = family_of(rng, specs, a)
            objs = [a] + [rng.choice(pool) for _ in range(n - 1)]
            if rng.random() < 0.3:
                objs[-1] = list(objs[0])                  # the same object twice
            if kind == "complex":
                # macrostate members / reaction members live in class 0; mixed classes of complexes are compared in pairs
                objs = [[o[0], o[1], objs[0][2]] for o in objs]
            perms = [list(range(n)), list(range(n))[::-1]]
            for _ in range(4):
                q = list(range(n)); rng.shuffle(q); perms.append(q)
            cases.append(("c10_order", ["order", kind, objs, perms]))
    return cases


def sub_triples(case):
    _, kind, objs, perms = case
    from itertools import combinations, permutations
    return [("c10_order", ["order", kind, [objs[i] for i in c], [list(q) for q in permutations(range(len(c)))]])
            for m in (2, 3) for c in combinations(range(len(objs)), m)]


def population(rng, quick):
    doms = [[n, L, k] for n in ("a", "a*", "b", "aa", "A", "b-1_x") for L in (5, 7, 9, 10) for k in (0, 1, 2, 3, 4)]
    # families of related names (one prefix; indices with different numbers of digits, leading zeros, sub-domain suffixes,
    # complements, case): the order is the order of the name strings whatever the names look like
    doms += [[n, L, k] for fam in name_families(rng) for n in fam for L, k in ((5, 0), (7, 1), (10, 3))]
    structs = [s for s in gs.all_wf(4 if quick else 5)]
    cplx = []
    for s in structs:
        for _ in range(2):
            cplx.append([gs.seq_for(rng, s, names=rng.choice([("a", "b"), ("a", "aa", "ab", "b", "B", "a_"), ("d1", "d10", "d2")]),
                                    complementary=rng.random() < 0.5), list(s), rng.randrange(3)])
    macs = [[rng.sample(cplx, rng.randrange(1, 4)), rng.randrange(2)] for _ in range(60)]
    # macrostates need distinct complexes in ONE class (members are looked up in their own registry)
    macs = [[[[c[0], c[1], 0] for c in cs], k] for cs, k in macs]
    types = ["open", "bind11", "bind21", "condensed", "branch-3way"]
    rc = [[rng.sample([[c[0], c[1], 0] for c in cplx], rng.randrange(1, 3)),
           rng.sample([[c[0], c[1], 0] for c in cplx], rng.randrange(1, 3)), rng.choice(types), rng.randrange(2)]
          for _ in range(60)]
    rc += [[r[0], r[1], rng.choice(types), r[3]] for r in rc[:20]]          # differ only in type
    rm = [[rng.sample(macs, rng.randrange(1, 3)), rng.sample(macs, 1), "condensed", rng.randrange(2)] for _ in range(40)]
    return {"domain": doms, "complex": cplx, "macrostate": macs, "reaction_c": rc, "reaction_m": rm}


def expected_ops(ka, kb, kind):
    if kind == "domain":
        na, nb = ka[0], kb[0]
        return [ka == kb, ka != kb, na < nb, na <= nb, na > nb, na >= nb]
    return [ka == kb, ka != kb, ka < kb, ka <= kb, ka > kb, ka >= kb]


def run(ctx):
    rng, quick = ctx.rng, ctx.tier == "quick"
    res = prove(ctx)
    runner = ensure_model_runner()
    diffs, found = [], []
    if runner.ok:
        pop = population(rng, quick)
        reqs = []
        n_pairs = 250 if quick else 4000
        for kind, specs in pop.items():
            for _ in range(n_pairs):
                a = rng.choice(specs)
                b = rng.choice(specs) if rng.random() < 0.7 else list(a[:-1]) + [rng.randrange(5 if kind == "domain" else 2)]
                if kind == "domain" and rng.random() < 0.4:
                    b = rng.choice(family_of(rng, specs, a))          # a related name (same prefix, another index / suffix)
                if kind == "complex" and rng.random() < 0.25:
                    # the same sequence under another structure (same strand breaks): the order looks at both components
                    shape = [i for i, x in enumerate(a[1]) if x == "+"]
                    alts = [list(t) for t in gs.all_wf(4 if quick else 5)
                            if len(t) == len(a[1]) and [i for i, x in enumerate(t) if x == "+"] == shape and list(t) != list(a[1])]
                    if alts:
                        b = [a[0], rng.choice(alts), rng.randrange(3)]
                elif kind == "complex" and rng.random() < 0.3:
                    # the same complex in another rotation, the first in the base class, the second in a subclass
                    rots = gen_pil.rotations(a[0], a[1])
                    r = rng.choice(rots)
                    a = [a[0], a[1], 0]
                    b = [r[0], r[1], rng.choice([1, 2])]
                reqs.append(("c10_pair", [kind, a, b]))
        impl = run_impl(reqs)
        mreqs, idx = [], []
        for k, (rq, r) in enumerate(zip(reqs, impl)):
            if isinstance(r, Err):
                # construction may legitimately be refused (same class, conflicting request): not a comparison case;
                # anything else (e.g. answers that depend on whether a hash was taken before) is a failure
                if r.kind not in ("SingletonError", "ObjectInitError"):
                    found.append({"key": {"kind": rq[1][0], "a": rq[1][1], "b": rq[1][2]}, "input": rq[1],
                                  "what": f"comparing the pair raised {r.kind} (for RuntimeError: the operators, `in` a set and the "
                                          "hashes answer differently before and after a hash was taken; see harness/impl/compare.py c10_pair)",
                                  "snippet": f"# harness op c10_pair {rq[1]!r} (harness/impl/compare.py)"})
                continue
            mreqs.append(("cmp_" + rq[1][0], [r[0], r[1]]))
            idx.append(k)
        model = run_model(mreqs)
        kinds, distinct = {}, set()
        for k, m, mr in zip(idx, model, mreqs):
            rq, r = reqs[k], impl[k]
            kind = rq[1][0]
            ka, kb, ops, hash_eq, same_obj, setlen, s1, s2 = r
            kinds[kind] = kinds.get(kind, 0) + 1
            if m != ops:
                diffs.append((k, mr, m, ops))
            distinct.add(json.dumps([ka, kb]))
            # direct statement of the property on this pair
            exp = expected_ops(ka, kb, kind)
            what = None
            if kind == "complex":
                # equality is on canonical forms, and the canonical form is the minimal rotation whichever registry
                # (base class or subclass) the object lives in and whatever was created before
                for spec, kk in ((rq[1][1], ka), (rq[1][2], kb)):
                    want = gen_pil.canon(spec[0], spec[1])
                    if [list(want[0]), list(want[1])] != kk:
                        what = f"canonical form {kk} of a complex of class index {spec[2]} is not the minimal rotation {want}"
            if what is None and ops != exp:
                what = f"operators [==,!=,<,<=,>,>=] give {ops}, canonical forms give {exp}"
            elif ops[0] and not hash_eq:
                what = "equal objects with different hashes"
            elif setlen != (1 if ops[0] else 2):
                what = f"set of the two objects has {setlen} elements"
            elif not same_obj and (s1[0] != ops[3] or s2[0] != ops[2]):
                what = f"sorted() is inconsistent with the operators: {s1} {s2} vs {ops}"
            if what:
                found.append({"key": {"kind": kind, "a": rq[1][1], "b": rq[1][2]}, "input": rq[1], "what": what,
                              "snippet": f"# harness op c10_pair {rq[1]!r} (harness/impl/compare.py)"})
        ctx.cov["correspondence"]["compare"] = {"cases": len(reqs), "compared": len(idx), "disagreements": len(diffs),
                                                "by_kind": kinds, "refused_constructions": len(reqs) - len(idx)}
        ctx.add_eval(len(reqs), len(distinct), samples=[{"req": reqs[0][1], "impl": impl[0]}])
        # several objects alive together: the relation on all of them and sorted()/min()/max() of arrangements
        oc = order_cases(rng, pop, quick)
        refused, bad = 0, []
        order_results = run_impl(oc)
        for rq, r in zip(oc, order_results):
            if isinstance(r, Err):
                if r.kind in ("SingletonError", "ObjectInitError"):
                    refused += 1
                    continue
                bad.append((rq, f"relating several objects raised {r.kind}"))
                continue
            what = check_order(rq[1][1], r) or check_sorted(rq[1][1], r, rq[1][3])
            if what:
                bad.append((rq, what))
        # the same arrangements through the model: sorted()/min()/max() = the stable sort of Base/Sort.v (C10_sorted_* theorems)
        sreqs, simpl = [], []
        for rq, r in zip(oc, order_results):
            if isinstance(r, Err):
                continue
            keys, arr = r[0], r[3]
            for p_, (srt, mn, mx, _rev) in zip(rq[1][3], arr):
                sreqs.append(("sorted_" + rq[1][1], [keys[i] for i in p_]))
                simpl.append((rq, [[keys[i] for i in srt], keys[mn], keys[mx]]))
        sdiff = 0
        for sq, m, (rq, want) in zip(sreqs, run_model(sreqs), simpl):
            if m != want:
                sdiff += 1
                if sdiff <= 5:
                    diffs.append((len(diffs), sq, m, want))
                    bad.append((rq, f"sorted()/min()/max() of {sq[1]} give {want}, the stable sort of the model gives {m}"))
        ctx.cov["correspondence"]["sorted-vs-model"] = {"cases": len(sreqs), "disagreements": sdiff}
        ctx.add_eval(len(sreqs), len({json.dumps(w) for _, w in simpl}))
        for rq, what in bad[:5]:
            # the smallest part of the tuple (a pair or a triple, all arrangements) that fails on its own
            subs = sub_triples(rq[1])
            for sq, sr in zip(subs, run_impl(subs)):
                w = (f"raised {sr.kind}" if sr.kind not in ("SingletonError", "ObjectInitError") else None) if isinstance(sr, Err) \
                    else (check_order(sq[1][1], sr) or check_sorted(sq[1][1], sr, sq[1][3]))
                if w:
                    rq, what = sq, w
                    break
            found.append({"key": {"kind": rq[1][1], "objects": rq[1][2]}, "input": rq[1], "what": what,
                          "snippet": f"# harness op c10_order {rq[1]!r} (harness/impl/compare.py)"})
        ctx.cov["correspondence"]["order"] = {"cases": len(oc), "refused_constructions": refused, "failing": len(bad)}
        ctx.add_eval(len(oc), len(oc) - refused)
        # read-only identity and copies (runtime behaviour: observed)
        ro = [("c10_readonly", [kind, rng.choice(specs)]) for kind, specs in pop.items() for _ in range(10 if quick else 100)]
        for rq, r in zip(ro, run_impl(ro)):
            if isinstance(r, Err):
                # the probe only reads views and scribbles on what it was handed: an exception means that a
                # handed-out view was part of the object's state
                found.append({"key": {"kind": rq[1][0], "spec": rq[1][1]}, "input": rq[1],
                              "what": f"after mutating handed-out views the object raises {r.kind}",
                              "snippet": f"# harness op c10_readonly {rq[1]!r}"})
                continue
            for attr, raised, unchanged in r:
                if not raised or not unchanged:
                    found.append({"key": {"kind": rq[1][0], "attr": attr}, "input": rq[1],
                                  "what": f"{rq[1][0]}.{attr}: raised={raised} unchanged={unchanged}",
                                  "snippet": f"# harness op c10_readonly {rq[1]!r}"})
        ctx.cov["correspondence"]["readonly"] = {"cases": len(ro)}
    ctx.cov["rule"] = ("random pairs from generated populations per kind (domains over 3 registries, complexes incl. pairs "
                       "differing only in structure, macrostates, reactions differing only in type, over complexes and over "
                       "macrostates); the implementation reports canonical forms and operator results, the model computes the "
                       "operators from the canonical forms; non-trivial = distinct key pairs; domain names include families with one prefix "
                       "(indices of 1-3 digits, leading zeros, sub-domain suffixes, complements) and pairs within a family; "
                       "tuples of 3-6 objects alive together: totality, transitivity, coherence of the six operators and "
                       "sorted()/min()/max() of several arrangements (direct statement, no model)")
    ctx.cov["partial"] = ["views are copies / attribute assignment raises: runtime behaviour, observed on every run, not a theorem"]
    if found and res["ok"] and not diffs:
        for f in found[:10]:
            ctx.violation("counterexample", f)
        return
    conclude(ctx, res, runner, diffs, lambda d: found)


def replay(data):
    inp = data.get("input")
    if not inp:
        print(json.dumps(data.get("broken_links"))[:2000]); return 1
    op = "c10_order" if len(inp) == 4 else "c10_pair" if len(inp) == 3 else "c10_readonly"
    r = run_impl([(op, inp)])[0]
    print(r)
    if op == "c10_order":
        if isinstance(r, Err):
            return 1
        what = check_order(inp[1], r) or check_sorted(inp[1], r, inp[3])
        print(what)
        return 1 if what else 0
    if op == "c10_pair" and not isinstance(r, Err):
        return 0 if r[2] == expected_ops(r[0], r[1], inp[0]) else 1
    return 1
