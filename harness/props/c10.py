"""C10 — equality, hashing, ordering and read-only identity."""
import json
from common import prove, ensure_model_runner, run_impl, run_model, Err
from flow import conclude
import gen_structs as gs
import gen_pil


def population(rng, quick):
    doms = [[n, L, k] for n in ("a", "a*", "b", "aa", "A", "b-1_x") for L in (5, 7, 9, 10) for k in (0, 1, 2, 3, 4)]
    structs = [s for s in gs.all_wf(4 if quick else 5)]
    cplx = []
    for s in structs:
        for _ in range(2):
            cplx.append([gs.seq_for(rng, s, names=rng.choice([("a", "b"), ("a", "aa", "ab", "b", "B", "a_"), ("d1", "d10", "d2")]),
                                    complementary=rng.random() < 0.5), list(s), rng.randrange(3)])
    macs = [[rng.sample(cplx, rng.randrange(1, 4)), rng.randrange(2)] for _ in range(60)]
    # macrostates need distinct complexes in ONE class (members are looked up in their own registry)
    macs = [[[[c[0], c[1], 0] for c in cs], k] for cs, k in macs]
    types = ["open", "bind11", "bind21", "condensed", "branch-3way"]
    rc = [[rng.sample([[c[0], c[1], 0] for c in cplx], rng.randrange(1, 3)),
           rng.sample([[c[0], c[1], 0] for c in cplx], rng.randrange(1, 3)), rng.choice(types), rng.randrange(2)]
          for _ in range(60)]
    rc += [[r[0], r[1], rng.choice(types), r[3]] for r in rc[:20]]          # differ only in type
    rm = [[rng.sample(macs, rng.randrange(1, 3)), rng.sample(macs, 1), "condensed", rng.randrange(2)] for _ in range(40)]
    return {"domain": doms, "complex": cplx, "macrostate": macs, "reaction_c": rc, "reaction_m": rm}


def expected_ops(ka, kb, kind):
    if kind == "domain":
        na, nb = ka[0], kb[0]
        return [ka == kb, ka != kb, na < nb, na <= nb, na > nb, na >= nb]
    return [ka == kb, ka != kb, ka < kb, ka <= kb, ka > kb, ka >= kb]


def run(ctx):
    rng, quick = ctx.rng, ctx.tier == "quick"
    res = prove(ctx)
    runner = ensure_model_runner()
    diffs, found = [], []
    if runner.ok:
        pop = population(rng, quick)
        reqs = []
        n_pairs = 250 if quick else 4000
        for kind, specs in pop.items():
            for _ in range(n_pairs):
                a = rng.choice(specs)
                b = rng.choice(specs) if rng.random() < 0.7 else list(a[:-1]) + [rng.randrange(5 if kind == "domain" else 2)]
                if kind == "complex" and rng.random() < 0.25:
                    # the same sequence under another structure (same strand breaks): the order looks at both components
                    shape = [i for i, x in enumerate(a[1]) if x == "+"]
                    alts = [list(t) for t in gs.all_wf(4 if quick else 5)
                            if len(t) == len(a[1]) and [i for i, x in enumerate(t) if x == "+"] == shape and list(t) != list(a[1])]
                    if alts:
                        b = [a[0], rng.choice(alts), rng.randrange(3)]
                elif kind == "complex" and rng.random() < 0.3:
                    # the same complex in another rotation, the first in the base class, the second in a subclass
                    rots = gen_pil.rotations(a[0], a[1])
                    r = rng.choice(rots)
                    a = [a[0], a[1], 0]
                    b = [r[0], r[1], rng.choice([1, 2])]
                reqs.append(("c10_pair", [kind, a, b]))
        impl = run_impl(reqs)
        mreqs, idx = [], []
        for k, (rq, r) in enumerate(zip(reqs, impl)):
            if isinstance(r, Err):
                # construction may legitimately be refused (same class, conflicting request): not a comparison case;
                # anything else (e.g. answers that depend on whether a hash was taken before) is a failure
                if r.kind not in ("SingletonError", "ObjectInitError"):
                    found.append({"key": {"kind": rq[1][0], "a": rq[1][1], "b": rq[1][2]}, "input": rq[1],
                                  "what": f"comparing the pair raised {r.kind} (for RuntimeError: the operators, `in` a set and the "
                                          "hashes answer differently before and after a hash was taken; see harness/impl/compare.py c10_pair)",
                                  "snippet": f"# harness op c10_pair {rq[1]!r} (harness/impl/compare.py)"})
                continue
            mreqs.append(("cmp_" + rq[1][0], [r[0], r[1]]))
            idx.append(k)
        model = run_model(mreqs)
        kinds, distinct = {}, set()
        for k, m, mr in zip(idx, model, mreqs):
            rq, r = reqs[k], impl[k]
            kind = rq[1][0]
            ka, kb, ops, hash_eq, same_obj, setlen, s1, s2 = r
            kinds[kind] = kinds.get(kind, 0) + 1
            if m != ops:
                diffs.append((k, mr, m, ops))
            distinct.add(json.dumps([ka, kb]))
            # direct statement of the property on this pair
            exp = expected_ops(ka, kb, kind)
            what = None
            if kind == "complex":
                # equality is on canonical forms, and the canonical form is the minimal rotation whichever registry
                # (base class or subclass) the object lives in and whatever was created before
                for spec, kk in ((rq[1][1], ka), (rq[1][2], kb)):
                    want = gen_pil.canon(spec[0], spec[1])
                    if [list(want[0]), list(want[1])] != kk:
                        what = f"canonical form {kk} of a complex of class index {spec[2]} is not the minimal rotation {want}"
            if what is None and ops != exp:
                what = f"operators [==,!=,<,<=,>,>=] give {ops}, canonical forms give {exp}"
            elif ops[0] and not hash_eq:
                what = "equal objects with different hashes"
            elif setlen != (1 if ops[0] else 2):
                what = f"set of the two objects has {setlen} elements"
            elif not same_obj and (s1[0] != ops[3] or s2[0] != ops[2]):
                what = f"sorted() is inconsistent with the operators: {s1} {s2} vs {ops}"
            if what:
                found.append({"key": {"kind": kind, "a": rq[1][1], "b": rq[1][2]}, "input": rq[1], "what": what,
                              "snippet": f"# harness op c10_pair {rq[1]!r} (harness/impl/compare.py)"})
        ctx.cov["correspondence"]["compare"] = {"cases": len(reqs), "compared": len(idx), "disagreements": len(diffs),
                                                "by_kind": kinds, "refused_constructions": len(reqs) - len(idx)}
        ctx.add_eval(len(reqs), len(distinct), samples=[{"req": reqs[0][1], "impl": impl[0]}])
        # read-only identity and copies (runtime behaviour: observed)
        ro = [("c10_readonly", [kind, rng.choice(specs)]) for kind, specs in pop.items() for _ in range(10 if quick else 100)]
        for rq, r in zip(ro, run_impl(ro)):
            if isinstance(r, Err):
                # the probe only reads views and scribbles on what it was handed: an exception means that a
                # handed-out view was part of the object's state
                found.append({"key": {"kind": rq[1][0], "spec": rq[1][1]}, "input": rq[1],
                              "what": f"after mutating handed-out views the object raises {r.kind}",
                              "snippet": f"# harness op c10_readonly {rq[1]!r}"})
                continue
            for attr, raised, unchanged in r:
                if not raised or not unchanged:
                    found.append({"key": {"kind": rq[1][0], "attr": attr}, "input": rq[1],
                                  "what": f"{rq[1][0]}.{attr}: raised={raised} unchanged={unchanged}",
                                  "snippet": f"# harness op c10_readonly {rq[1]!r}"})
        ctx.cov["correspondence"]["readonly"] = {"cases": len(ro)}
    ctx.cov["rule"] = ("random pairs from generated populations per kind (domains over 3 registries, complexes incl. pairs "
                       "differing only in structure, macrostates, reactions differing only in type, over complexes and over "
                       "macrostates); the implementation reports canonical forms and operator results, the model computes the "
                       "operators from the canonical forms; non-trivial = distinct key pairs")
    ctx.cov["partial"] = ["views are copies / attribute assignment raises: runtime behaviour, observed on every run, not a theorem"]
    if found and res["ok"] and not diffs:
        for f in found[:10]:
            ctx.violation("counterexample", f)
        return
    conclude(ctx, res, runner, diffs, lambda d: found)


def replay(data):
    inp = data.get("input")
    if not inp:
        print(json.dumps(data.get("broken_links"))[:2000]); return 1
    op = "c10_pair" if len(inp) == 3 else "c10_readonly"
    r = run_impl([(op, inp)])[0]
    print(r)
    if op == "c10_pair" and not isinstance(r, Err):
        return 0 if r[2] == expected_ops(r[0], r[1], inp[0]) else 1
    return 1
