"""C10 — equality, hashing, ordering and read-only identity."""
import json
import re
from common import prove, ensure_model_runner, run_impl, run_model, Err
from flow import conclude
import gen_structs as gs
import gen_pil


NAME_TAILS = ("1", "2", "10", "1a", "1b", "01", "2*", "10*", "1*", "9", "11", "100", "2A", "1_", "", "*", "1-2", "1.5")


def name_families(rng):
    """lists of names that share a prefix and differ in an index / suffix (automatic names, split sub-domains, complements)"""
    fams = [[p + t for t in NAME_TAILS if p + t not in ("", "*")] for p in ("d", "", "t_")]
    # a generated family: random prefix, random indices of 1-3 digits, some with a letter suffix or a complement marker
    p = "".join(rng.choice("abXY_") for _ in range(rng.randrange(1, 3)))
    idx = [str(rng.randrange(10 ** rng.randrange(1, 4))) for _ in range(8)]
    fams.append(sorted({p + i + rng.choice(["", "", "*", "a", "b"]) for i in idx} | {p + i for i in idx[:3]}))
    return fams


def stem(name):
    return re.match(r"[^0-9]*", name).group(0).rstrip("*")


def family_of(rng, specs, a):
    """members of the domain population whose name is related to that of `a` (same leading non-digit part)"""
    return [x for x in specs if stem(x[0]) == stem(a[0])]


def order_key(kind, key):
    return key[0] if kind == "domain" else key


def check_order(kind, r):
    """direct statement on several objects alive together: <= is total and transitive, < is its strict part, equal objects
    are equivalent, and sorted()/min()/max() of every arrangement give the ascending order of the canonical forms"""
    keys, first, rel, arr_perm = r[0], r[1], r[2], r[3]
    n = len(keys)
    EQ, NE, LT, LE, GT, GE = range(6)
    for i in range(n):
        for j in range(n):
            o, b = rel[i][j], rel[j][i]
            if not (o[LE] or b[LE]):
                return f"neither x <= y nor y <= x for x={keys[i]} y={keys[j]}"
            if o[LT] != (o[LE] and not b[LE]) or o[GT] != b[LT] or o[GE] != b[LE] or o[NE] == o[EQ] or o[EQ] != b[EQ]:
                return f"operators incoherent on x={keys[i]} y={keys[j]}: {o} / {b}"
            if o[EQ] and not (o[LE] and b[LE]):
                return f"equal objects are not equivalent in the order: {keys[i]} {keys[j]}"
            if o[EQ] != (keys[i] == keys[j]):
                return f"== is {o[EQ]} on canonical forms {keys[i]} {keys[j]}"
            for k in range(n):
                if o[LE] and rel[j][k][LE] and not rel[i][k][LE]:
                    return f"not transitive: {keys[i]} <= {keys[j]} <= {keys[k]} but not {keys[i]} <= {keys[k]}"
                if o[LT] and rel[j][k][LT] and not rel[i][k][LT]:
                    return f"not transitive: {keys[i]} < {keys[j]} < {keys[k]} but not {keys[i]} < {keys[k]}"
    return None


def check_sorted(kind, r, perms):
    keys, first, rel, arr_perm = r[0], r[1], r[2], r[3]
    seen = {}
    for p, (srt, mn, mx, rev) in zip(perms, arr_perm):
        oks = [order_key(kind, keys[i]) for i in p]
        got = [order_key(kind, keys[i]) for i in srt]
        if got != sorted(oks):
            return f"sorted() of the arrangement {[keys[i] for i in p]} gives {[keys[i] for i in srt]}"
        if [order_key(kind, keys[i]) for i in rev] != sorted(oks, reverse=True):
            return f"sorted(reverse=True) of the arrangement {[keys[i] for i in p]} gives {[keys[i] for i in rev]}"
        if order_key(kind, keys[mn]) != min(oks) or order_key(kind, keys[mx]) != max(oks):
            return f"min()/max() of the arrangement {[keys[i] for i in p]} give {keys[mn]} / {keys[mx]}"
        seen.setdefault(json.dumps(sorted(first[i] for i in p)), set()).add(json.dumps(got))
    if any(len(v) > 1 for v in seen.values()):
        return "sorted() depends on the order of its input"
    return None


def order_cases(rng, pop, quick):
    """tuples of 3-6 objects of one kind and arrangements of them"""
    cases = []
    per_kind = {"domain": 60, "complex": 25, "macrostate": 15, "reaction_c": 15, "reaction_m": 10}
    for kind, specs in pop.items():
        for _ in range(per_kind[kind] * (1 if quick else 10)):
            n = rng.randrange(3, 7 if kind == "domain" else 5)
            a = rng.choice(specs)
            pool = specs
            if kind == "domain" and rng.random() < 0.75:
                pool = family_of(rng, specs, a)
            objs = [a] + [rng.choice(pool) for _ in range(n - 1)]
            if rng.random() < 0.3:
                objs[-1] = list(objs[0])                  # the same object twice
            if kind == "complex":
                # macrostate members / reaction members live in class 0; mixed classes of complexes are compared in pairs
                objs = [[o[0], o[1], objs[0][2]] for o in objs]
            perms = [list(range(n)), list(range(n))[::-1]]
            for _ in range(4):
                q = list(range(n)); rng.shuffle(q); perms.append(q)
            cases.append(("c10_order", ["order", kind, objs, perms]))
    return cases


def sub_triples(case):
    _, kind, objs, perms = case
    from itertools import combinations, permutations
    return [("c10_order", ["order", kind, [objs[i] for i in c], [list(q) for q in permutations(range(len(c)))]])
            for m in (2, 3) for c in combinations(range(len(objs)), m)]


def population(rng, quick):
    doms = [[n, L, k] for n in ("a", "a*", "b", "aa", "A", "b-1_x") for L in (5, 7, 9, 10) for k in (0, 1, 2, 3, 4)]
    # families of related names (one prefix; indices with different numbers of digits, leading zeros, sub-domain suffixes,
    # complements, case): the order is the order of the name strings whatever the names look like
    doms += [[n, L, k] for fam in name_families(rng) for n in fam for L, k in ((5, 0), (7, 1), (10, 3))]
    structs = [s for s in gs.all_wf(4 if quick else 5)]
    cplx = []
    for s in structs:
        for _ in range(2):
            cplx.append([gs.seq_for(rng, s, names=rng.choice([("a", "b"), ("a", "aa", "ab", "b", "B", "a_"), ("d1", "d10", "d2")]),
                                    complementary=rng.random() < 0.5), list(s), rng.randrange(3)])
    macs = [[rng.sample(cplx, rng.randrange(1, 4)), rng.randrange(2)] for _ in range(60)]
    # macrostates need distinct complexes in ONE class (members are looked up in their own registry)
    macs = [[[[c[0], c[1], 0] for c in cs], k] for cs, k in macs]
    types = ["open", "bind11", "bind21", "condensed", "branch-3way"]
    rc = [[rng.sample([[c[0], c[1], 0] for c in cplx], rng.randrange(1, 3)),
           rng.sample([[c[0], c[1], 0] for c in cplx], rng.randrange(1, 3)), rng.choice(types), rng.randrange(2)]
          for _ in range(60)]
    rc += [[r[0], r[1], rng.choice(types), r[3]] for r in rc[:20]]          # differ only in type
    rm = [[rng.sample(macs, rng.randrange(1, 3)), rng.sample(macs, 1), "condensed", rng.randrange(2)] for _ in range(40)]
    return {"domain": doms, "complex": cplx, "macrostate": macs, "reaction_c": rc, "reaction_m": rm}


NAME_POOL = ("r1", "r2", "r3", "A", "B", "x", "fw", "bw")


def names_cases(rng, pop, quick):
    """histories of sessions for the op c10_names: per session 2-4 different objects of one kind, each requested in the
    base class and in the subclass; the two registries give them names from one small pool independently (so a name denotes
    different objects in the two registries, and an object has two names), some are left to the automatic name, some are
    used as set members before they are compared; later sessions re-use the names for other objects"""
    cases = []
    per_kind = {"complex": 12, "macrostate": 8, "reaction_c": 16, "reaction_m": 8}
    for kind, n_cases in per_kind.items():
        specs = pop[kind]
        for _ in range(n_cases * (1 if quick else 10)):
            sessions = []
            for _s in range(rng.randrange(1, 4)):
                n = rng.randrange(2, 5)
                chosen = [rng.choice(specs) for _ in range(n)]
                pool = rng.sample(NAME_POOL, n) if rng.random() < 0.7 else list(NAME_POOL[:n])
                sess = []
                for k in (0, 1):
                    names = list(pool)
                    if k == 1:
                        how = rng.randrange(4)
                        if how == 0: names.reverse()
                        elif how == 1: rng.shuffle(names)
                        elif how == 2: names = rng.sample(NAME_POOL, n)
                        # how == 3: the same names in both registries
                    for sp, nm in zip(chosen, names):
                        auto = kind != "macrostate" and rng.random() < 0.15
                        sess.append([sp, None if auto else nm, k, rng.random() < 0.5])
                if kind == "macrostate":
                    # a macrostate is named after one of its members: the registries choose different members (the op calls
                    # the complexes A, B, C, ... in order of appearance)
                    sess = [[sp, rng.choice([None, 0, 1, 2]), k, u] for sp, nm, k, u in sess]
                if rng.random() < 0.5:
                    rng.shuffle(sess)
                sessions.append(sess)
            cases.append(("c10_names", ["names", kind, sessions]))
    return cases


def check_names(r):
    """direct statement: within a session, == exactly when the canonical forms are equal (names do not matter), equal
    objects are equivalent in the order, have equal hashes, are found in a set / as a dictionary key and make a set of one"""
    for s, (keys, names, incl, rel) in enumerate(r):
        for i in range(len(keys)):
            for j in range(len(keys)):
                eq, ne, le, ge, heq, inset, setlen, lookup = rel[i][j]
                same = keys[i] == keys[j]
                who = f"session {s}: objects #{incl[i]} {names[i]!r} and #{incl[j]} {names[j]!r}"
                if eq != same or ne == eq:
                    return f"{who}: == is {eq}, != is {ne}, canonical forms are {'equal' if same else 'different'}"
                if same and not (le and ge):
                    return f"{who}: equal objects are not equivalent in the order"
                if same and not heq:
                    return f"{who}: equal objects (equal canonical forms) with different hashes"
                if inset != same or lookup != same or setlen != (1 if same else 2):
                    return f"{who}: canonical forms {'equal' if same else 'different'}, but y in {{x}} is {inset}, {{x: 1}}[y] found: {lookup}, len({{x, y}}) = {setlen}"
    return None


def shrink_names(case, fails):
    """fewer sessions, then fewer objects per session, as long as the case still fails in a fresh process"""
    _, kind, sessions = case
    budget = 40
    changed = True
    while changed and budget > 0:
        changed = False
        cands = [sessions[:i] + sessions[i + 1:] for i in range(len(sessions)) if len(sessions) > 1]
        cands += [sessions[:i] + [sessions[i][:j] + sessions[i][j + 1:]] + sessions[i + 1:]
                  for i in range(len(sessions)) for j in range(len(sessions[i])) if len(sessions[i]) > 2]
        for c in cands:
            budget -= 1
            if budget < 0:
                break
            if fails(["names", kind, c]):
                sessions, changed = c, True
                break
    return ["names", kind, sessions]


def expected_ops(ka, kb, kind):
    if kind == "domain":
        na, nb = ka[0], kb[0]
        return [ka == kb, ka != kb, na < nb, na <= nb, na > nb, na >= nb]
    return [ka == kb, ka != kb, ka < kb, ka <= kb, ka > kb, ka >= kb]


def run(ctx):
    rng, quick = ctx.rng, ctx.tier == "quick"
    res = prove(ctx)
    runner = ensure_model_runner()
    diffs, found = [], []
    if runner.ok:
        pop = population(rng, quick)
        reqs = []
        n_pairs = 250 if quick else 4000
        for kind, specs in pop.items():
            for _ in range(n_pairs):
                a = rng.choice(specs)
                b = rng.choice(specs) if rng.random() < 0.7 else list(a[:-1]) + [rng.randrange(5 if kind == "domain" else 2)]
                if kind == "domain" and rng.random() < 0.4:
                    b = rng.choice(family_of(rng, specs, a))          # a related name (same prefix, another index / suffix)
                if kind == "complex" and rng.random() < 0.25:
                    # the same sequence under another structure (same strand breaks): the order looks at both components
                    shape = [i for i, x in enumerate(a[1]) if x == "+"]
                    alts = [list(t) for t in gs.all_wf(4 if quick else 5)
                            if len(t) == len(a[1]) and [i for i, x in enumerate(t) if x == "+"] == shape and list(t) != list(a[1])]
                    if alts:
                        b = [a[0], rng.choice(alts), rng.randrange(3)]
                elif kind == "complex" and rng.random() < 0.3:
                    # the same complex in another rotation, the first in the base class, the second in a subclass
                    rots = gen_pil.rotations(a[0], a[1])
                    r = rng.choice(rots)
                    a = [a[0], a[1], 0]
                    b = [r[0], r[1], rng.choice([1, 2])]
                reqs.append(("c10_pair", [kind, a, b]))
        impl = run_impl(reqs)
        mreqs, idx = [], []
        for k, (rq, r) in enumerate(zip(reqs, impl)):
            if isinstance(r, Err):
                # construction may legitimately be refused (same class, conflicting request): not a comparison case;
                # anything else (e.g. answers that depend on whether a hash was taken before) is a failure
                if r.kind not in ("SingletonError", "ObjectInitError"):
                    found.append({"key": {"kind": rq[1][0], "a": rq[1][1], "b": rq[1][2]}, "input": rq[1],
                                  "what": f"comparing the pair raised {r.kind} (for RuntimeError: the operators, `in` a set and the "
                                          "hashes answer differently before and after a hash was taken; see harness/impl/compare.py c10_pair)",
                                  "snippet": f"# harness op c10_pair {rq[1]!r} (harness/impl/compare.py)"})
                continue
            mreqs.append(("cmp_" + rq[1][0], [r[0], r[1]]))
            idx.append(k)
        model = run_model(mreqs)
        kinds, distinct = {}, set()
        for k, m, mr in zip(idx, model, mreqs):
            rq, r = reqs[k], impl[k]
            kind = rq[1][0]
            ka, kb, ops, hash_eq, same_obj, setlen, s1, s2 = r
            kinds[kind] = kinds.get(kind, 0) + 1
            if m != ops:
                diffs.append((k, mr, m, ops))
            distinct.add(json.dumps([ka, kb]))
            # direct statement of the property on this pair
            exp = expected_ops(ka, kb, kind)
            what = None
            if kind == "complex":
                # equality is on canonical forms, and the canonical form is the minimal rotation whichever registry
                # (base class or subclass) the object lives in and whatever was created before
                for spec, kk in ((rq[1][1], ka), (rq[1][2], kb)):
                    want = gen_pil.canon(spec[0], spec[1])
                    if [list(want[0]), list(want[1])] != kk:
                        what = f"canonical form {kk} of a complex of class index {spec[2]} is not the minimal rotation {want}"
            if what is None and ops != exp:
                what = f"operators [==,!=,<,<=,>,>=] give {ops}, canonical forms give {exp}"
            elif ops[0] and not hash_eq:
                what = "equal objects with different hashes"
            elif setlen != (1 if ops[0] else 2):
                what = f"set of the two objects has {setlen} elements"
            elif not same_obj and (s1[0] != ops[3] or s2[0] != ops[2]):
                what = f"sorted() is inconsistent with the operators: {s1} {s2} vs {ops}"
            if what:
                found.append({"key": {"kind": kind, "a": rq[1][1], "b": rq[1][2]}, "input": rq[1], "what": what,
                              "snippet": f"# harness op c10_pair {rq[1]!r} (harness/impl/compare.py)"})
        ctx.cov["correspondence"]["compare"] = {"cases": len(reqs), "compared": len(idx), "disagreements": len(diffs),
                                                "by_kind": kinds, "refused_constructions": len(reqs) - len(idx)}
        ctx.add_eval(len(reqs), len(distinct), samples=[{"req": reqs[0][1], "impl": impl[0]}])
        # several objects alive together: the relation on all of them and sorted()/min()/max() of arrangements
        oc = order_cases(rng, pop, quick)
        refused, bad = 0, []
        order_results = run_impl(oc)
        for rq, r in zip(oc, order_results):
            if isinstance(r, Err):
                if r.kind in ("SingletonError", "ObjectInitError"):
                    refused += 1
                    continue
                bad.append((rq, f"relating several objects raised {r.kind}"))
                continue
            what = check_order(rq[1][1], r) or check_sorted(rq[1][1], r, rq[1][3])
            if what:
                bad.append((rq, what))
        # the same arrangements through the model: sorted()/min()/max() = the stable sort of Base/Sort.v (C10_sorted_* theorems)
        sreqs, simpl = [], []
        for rq, r in zip(oc, order_results):
            if isinstance(r, Err):
                continue
            keys, arr = r[0], r[3]
            for p_, (srt, mn, mx, _rev) in zip(rq[1][3], arr):
                sreqs.append(("sorted_" + rq[1][1], [keys[i] for i in p_]))
                simpl.append((rq, [[keys[i] for i in srt], keys[mn], keys[mx]]))
        sdiff = 0
        for sq, m, (rq, want) in zip(sreqs, run_model(sreqs), simpl):
            if m != want:
                sdiff += 1
                if sdiff <= 5:
                    diffs.append((len(diffs), sq, m, want))
                    bad.append((rq, f"sorted()/min()/max() of {sq[1]} give {want}, the stable sort of the model gives {m}"))
        ctx.cov["correspondence"]["sorted-vs-model"] = {"cases": len(sreqs), "disagreements": sdiff}
        ctx.add_eval(len(sreqs), len({json.dumps(w) for _, w in simpl}))
        for rq, what in bad[:5]:
            # the smallest part of the tuple (a pair or a triple, all arrangements) that fails on its own
            subs = sub_triples(rq[1])
            for sq, sr in zip(subs, run_impl(subs)):
                w = (f"raised {sr.kind}" if sr.kind not in ("SingletonError", "ObjectInitError") else None) if isinstance(sr, Err) \
                    else (check_order(sq[1][1], sr) or check_sorted(sq[1][1], sr, sq[1][3]))
                if w:
                    rq, what = sq, w
                    break
            found.append({"key": {"kind": rq[1][1], "objects": rq[1][2]}, "input": rq[1], "what": what,
                          "snippet": f"# harness op c10_order {rq[1]!r} (harness/impl/compare.py)"})
        ctx.cov["correspondence"]["order"] = {"cases": len(oc), "refused_constructions": refused, "failing": len(bad)}
        ctx.add_eval(len(oc), len(oc) - refused)
        # read-only identity and copies (runtime behaviour: observed)
        ro = [("c10_readonly", [kind, rng.choice(specs)]) for kind, specs in pop.items() for _ in range(10 if quick else 100)]
        for rq, r in zip(ro, run_impl(ro)):
            if isinstance(r, Err):
                # the probe only reads views and scribbles on what it was handed: an exception means that a
                # handed-out view was part of the object's state
                found.append({"key": {"kind": rq[1][0], "spec": rq[1][1]}, "input": rq[1],
                              "what": f"after mutating handed-out views the object raises {r.kind}",
                              "snippet": f"# harness op c10_readonly {rq[1]!r}"})
                continue
            for attr, raised, unchanged in r:
                if not raised or not unchanged:
                    found.append({"key": {"kind": rq[1][0], "attr": attr}, "input": rq[1],
                                  "what": f"{rq[1][0]}.{attr}: raised={raised} unchanged={unchanged}",
                                  "snippet": f"# harness op c10_readonly {rq[1]!r}"})
        ctx.cov["correspondence"]["readonly"] = {"cases": len(ro)}
        # names are not identity: sessions of named objects in two registries, names re-used (drawn after all older draws)
        nc = names_cases(rng, pop, quick)

        def names_what(arg):
            r = run_impl([("c10_names", arg)])[0]
            if isinstance(r, Err):
                return None if r.kind in ("SingletonError", "ObjectInitError") else f"raised {r.kind}"
            return check_names(r)
        n_bad, n_pairs_seen = 0, 0
        for rq, r in zip(nc, run_impl(nc)):
            if isinstance(r, Err):
                what = None if r.kind in ("SingletonError", "ObjectInitError") else f"raised {r.kind}"
            else:
                what = check_names(r)
                n_pairs_seen += sum(len(x[0]) ** 2 for x in r)
            if what:
                n_bad += 1
                if n_bad <= 3:
                    # the batch shares processes between cases: what is reported must fail on its own in a fresh process
                    if names_what(rq[1]):
                        small = shrink_names(rq[1], lambda a: names_what(a) is not None)
                        found.append({"key": {"kind": small[1], "sessions": small[2]}, "input": small,
                                      "what": names_what(small) or what,
                                      "snippet": f"# harness op c10_names {small!r} (harness/impl/compare.py)"})
                    else:
                        found.append({"key": {"kind": rq[1][1], "sessions": rq[1][2]}, "input": rq[1],
                                      "what": what + " (only after the other cases of the batch ran in the same process)",
                                      "snippet": f"# harness op c10_names {rq[1]!r} (harness/impl/compare.py)"})
        ctx.cov["correspondence"]["names"] = {"cases": len(nc), "ordered_pairs": n_pairs_seen, "failing": n_bad}
        ctx.add_eval(len(nc), len(nc))
    ctx.cov["rule"] = ("random pairs from generated populations per kind (domains over 3 registries, complexes incl. pairs "
                       "differing only in structure, macrostates, reactions differing only in type, over complexes and over "
                       "macrostates); the implementation reports canonical forms and operator results, the model computes the "
                       "operators from the canonical forms; non-trivial = distinct key pairs; domain names include families with one prefix "
                       "(indices of 1-3 digits, leading zeros, sub-domain suffixes, complements) and pairs within a family; "
                       "tuples of 3-6 objects alive together: totality, transitivity, coherence of the six operators and "
                       "sorted()/min()/max() of several arrangements (direct statement, no model); sessions of named complexes, "
                       "macrostates and reactions in the base class and a subclass, names chosen independently per registry and "
                       "re-used by later sessions of the same process for other objects: ==, order, hashes, set membership, "
                       "dictionary lookup of every pair follow the canonical forms (direct statement)")
    ctx.cov["partial"] = ["views are copies / attribute assignment raises: runtime behaviour, observed on every run, not a theorem"]
    if found and res["ok"] and not diffs:
        for f in found[:10]:
            ctx.violation("counterexample", f)
        return
    conclude(ctx, res, runner, diffs, lambda d: found)


def replay(data):
    inp = data.get("input")
    if not inp:
        print(json.dumps(data.get("broken_links"))[:2000]); return 1
    if inp[0] == "names":
        r = run_impl([("c10_names", inp)])[0]
        print(r)
        if isinstance(r, Err):
            return 1
        what = check_names(r)
        print(what)
        return 1 if what else 0
    op = "c10_order" if len(inp) == 4 else "c10_pair" if len(inp) == 3 else "c10_readonly"
    r = run_impl([(op, inp)])[0]
    print(r)
    if op == "c10_order":
        if isinstance(r, Err):
            return 1
        what = check_order(inp[1], r) or check_sorted(inp[1], r, inp[3])
        print(what)
        return 1 if what else 0
    if op == "c10_pair" and not isinstance(r, Err):
        return 0 if r[2] == expected_ops(r[0], r[1], inp[0]) else 1
    return 1
