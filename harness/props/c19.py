"""C19 — seesaw grammar: parsing inverts rendering."""
import pegprop
import pil_texts as pt
import ssw_texts as st


def build(ctx):
    rng, quick = ctx.rng, ctx.tier == "quick"
    n_per_kind = 200 if quick else 5000
    S = {"valid": [], "reject": [], "ambiguous": [], "documents": [], "mutated": []}
    for kind in st.KINDS:
        for j in range(n_per_kind):
            size = [1, 2, 3, 5, 9][j % 5] if quick else rng.choice([1, 2, 3, 5, 9, 30])
            a = st.gen_ast(rng, kind, size)
            assert st.valid(a), a
            for _ in range(2 if j % 4 == 0 else 1):
                S["valid"].append({"tree": st.tokens(a), "text": st.render(rng, a, eof=rng.random() < 0.15), "kind": kind})
            # systematic family of argument deletions, insertions and kind swaps
            if j % 2 == 0:
                for fault, b in st.faults(rng, a):
                    S["reject"].append({"text": st.render(rng, b), "fault": fault, "kind": kind})
    # two statements on one line, keyword glued to an identifier-like continuation, PIL statements: agreement only
    base = [c["text"] for c in S["valid"]]
    for _ in range(150 if quick else 3000):
        r = rng.random()
        if r < 0.4:
            s = rng.choice(base).rstrip("\r\n") + " " + rng.choice(base)
        elif r < 0.7:
            s = pt.render(rng, pt.gen_tree(rng, rng.choice(pt.KINDS), 2))
        else:
            s = rng.choice(base).replace("[", "(", 1)
        S["ambiguous"].append({"text": s, "fault": "outside-guard", "kind": "ambiguous"})
    for _ in range(150 if quick else 3000):
        n = rng.choice([1, 2, 3, 5, 8, 20] if quick else [1, 2, 3, 5, 8, 20, 60])
        texts, trees = [], []
        for j in range(n):
            a = st.gen_ast(rng, rng.choice(st.KINDS), rng.choice([1, 2, 4]))
            trees.append(st.tokens(a))
            texts.append(st.render(rng, a, eof=(j == n - 1 and rng.random() < 0.2)))
        S["documents"].append({"prologue": pt.prologue(rng), "texts": texts, "trees": trees})
    for _ in range(1500 if quick else 60000):
        s = pt.char_mutation(rng, rng.choice(base), pt.MUT_ALPHABET + list("wgthfcINPUTOFluor"))
        if rng.random() < 0.2:
            s += rng.choice(base)
        S["mutated"].append({"text": s})
    return S


RULE = (
    "syntax trees of all 10 statement kinds (INPUT/OUTPUT with number or identifier and wire or fluorophore, seesaw gates, "
    "wire / gate (both argument orders) / threshold (both orders) concentrations, reporter, inputfanout, seesawOR, seesawAND; "
    "list lengths 1..9, integer/decimal/scientific concentrations, identifier shapes) x random layouts (blanks/tabs around every "
    "token, comments, blank lines, LF/CRLF, last line without newline); documents of 1..20 statements; a systematic family of "
    "argument deletions, insertions and kind swaps, negative concentrations and inputs bound to a fluorophore that must be "
    "rejected (only mutations that the grammar's typing refuses); character-level mutations; on the implementation only: parser "
    "histories, files, and re-parsing after the caller destroyed the token tree it was given (one statement of every kind, the same "
    "text twice, a document then its statements, a statement repeated in one document, one re-written file; results are made of new "
    "list objects every time). non-trivial = distinct agreed token trees")

CFG = {"op": "parse_seesaw", "oracle": "c19.py", "dialect": "seesaw", "fn": "parse_seesaw_string",
       "fn_file": "parse_seesaw_file", "build": build, "norm_tree": lambda t: t, "rule": RULE, "kinds": st.KINDS}
PARTIAL = [
    "rejection theorems cover one fault family per statement kind (INPUT bound to a fluorophore, OUTPUT second argument, seesaw missing list, conc missing / negative number on wire / gate / threshold, reporter argument faults, inputfanout non-numeric fan-out, seesawOR / seesawAND missing list); other faults of the systematic family (deleted brackets, swapped kinds inside lists) are checked on the implementation and in the correspondence only",
]


def run(ctx):
    CFG["partial"] = PARTIAL
    pegprop.run(ctx, CFG)


def replay(data):
    return pegprop.replay(CFG, data)
