"""C11 — macrostates and reactions are (multi)sets."""
import json, itertools
from common import prove, ensure_model_runner, run_impl, run_model, Err
from flow import conclude
import gen_structs as gs
import gen_pil


def complexes(rng, n):
    out, seen = [], set()
    while len(out) < n:
        s = gs.random_wf(rng, rng.randrange(1, 6), p_break=0.2)
        sq = gs.seq_for(rng, s, names=("a", "b"))
        key = gen_pil.canon(sq, list(s))          # distinct up to strand rotation
        if key in seen:
            continue
        seen.add(key)
        out.append([sq, list(s), 0])
    return out


ACTIONS = ["clear", "append", "pop", "pop0", "reverse", "replace", "refill", "refill", "sort-desc", "request"]
FORMS = ["list", "list", "list", "sublist", "deque", "tuple"]


def caller_steps(rng, npop):
    """what a caller may do with HIS argument containers after a request: re-use them as buffers"""
    steps = []
    for _ in range(rng.randrange(1, 5)):
        a = rng.choice(ACTIONS)
        param = None
        if a == "append":
            param = rng.randrange(npop)
        elif a == "replace":
            param = [rng.randrange(4), rng.randrange(npop)]
        elif a == "refill":
            param = [rng.randrange(npop) for _ in range(rng.randrange(1, 4))]
        steps.append([rng.randrange(2), a, param])
    return steps


def caller_snippet(arg):
    kind, specs, re, pr, rtype, name, k, forms, steps = arg
    if kind == "m":
        return f"# harness op c11_caller_args {arg!r} (harness/impl/compare.py)"
    mk = {"sublist": "Sub", "deque": "collections.deque"}
    L = ["import collections",
         "from dsdobjects.base_classes import DomainS, ComplexS, ReactionS",
         "class Sub(list): pass",
         "class Rxn(ReactionS): pass" if k else "Rxn = ReactionS",
         "def dom(n):",
         "    try: return DomainS(n, 5)",
         "    except Exception: return DomainS(n)",
         f"specs = {[[s[0], s[1]] for s in specs]!r}",
         "X = [ComplexS([dom(x) if x != '+' else '+' for x in sq], list(st), name='X%d' % i) for i, (sq, st) in enumerate(specs)]",
         f"bufs = [{mk.get(forms[0], 'list')}(X[i] for i in {re!r}), {mk.get(forms[1], 'list')}(X[i] for i in {pr!r})]",
         "orig = [list(b) for b in bufs]",
         f"forms = {forms!r}",
         "passed = lambda j: tuple(bufs[j]) if forms[j] == 'tuple' else bufs[j]",
         f"request = lambda: Rxn(passed(0), passed(1), {rtype!r}, name={name!r})",
         "observe = lambda o: (o.name, o.canonical_form, [x.name for x in o.reactants], [x.name for x in o.products], o.arity)",
         "first = request()",
         "before = observe(first)",
         "key = lambda x: x.canonical_form",
         "assert before[2] == [x.name for x in sorted(orig[0], key=key)] and before[3] == [x.name for x in sorted(orig[1], key=key)] "
         "and before[4] == (len(orig[0]), len(orig[1])), before",
         "assert all(len(b) == len(o) and all(x is y for x, y in zip(b, o)) for b, o in zip(bufs, orig)), 'the request changed the argument containers'",
         "keep = []"]
    code = {"clear": "b.clear()", "append": "b.append(X[{p}])", "pop": "b.pop()", "pop0": "del b[0]", "reverse": "b.reverse()",
            "replace": "b[{p0} % len(b)] = X[{p1}]", "refill": "b.clear(); b.extend(X[i] for i in {p})",
            "sort-desc": "b.sort(key=key, reverse=True)", "request": "keep.append(request())"}
    for t, a, p_ in steps:
        two = isinstance(p_, list) and len(p_) > 1
        stmt = code[a].format(p=p_, p0=p_[0] if two else None, p1=p_[1] if two else None)
        L += [f"b = bufs[{t}]", f"try: {stmt}", "except Exception: pass",
              "assert observe(first) == before, (observe(first), before)"]
    L += [f"assert Rxn(tuple(reversed(orig[0])), tuple(reversed(orig[1])), {rtype!r}, name={name!r}) is first"]
    return "\n".join(L)


def differing(rng, one, npop, types):
    """[first, second] request: `one` and a relative of it in which a multiplicity, a member or the type is changed;
    either of the two is requested first.  The fourth entry of the second request names the change (not used by the op)."""
    re, pr, rtype = one
    two = [list(re), list(pr), rtype]
    how = rng.choice(["multiplicity+", "multiplicity+", "multiplicity-", "exchange", "add", "drop", "type"])
    side = two[rng.randrange(2)]
    if how == "multiplicity-":
        rep = [x for x in set(side) if side.count(x) > 1]
        if rep:
            side.remove(rng.choice(rep))
        else:
            how = "multiplicity+"
    if how == "multiplicity+":
        side.insert(rng.randrange(len(side) + 1), rng.choice(side))
    elif how == "exchange":
        i = rng.randrange(len(side))
        side[i] = rng.choice([x for x in range(npop) if x != side[i]])
    elif how == "add":
        new = [x for x in range(npop) if x not in side]
        if new:
            side.insert(rng.randrange(len(side) + 1), rng.choice(new))
        else:
            how = "type"
    elif how == "drop":
        if len(side) > 1:
            del side[rng.randrange(len(side))]
        else:
            how = "type"
    if how == "type":
        two[2] = rng.choice([t for t in types if t != rtype])
    pair = [[re, pr, rtype], two]
    if rng.randrange(2):
        pair.reverse()
    pair[1] = pair[1] + [how]
    return pair


DIFFERS_WHAT = {
    "refused": "the {which} of two different unnamed reactions ({how}) was refused",
    "same-object": "two reactions that differ ({how}) are the same object {0!r}",
    "compare-equal": "two reactions that differ ({how}) compare equal",
    "same-canonical-form": "two reactions that differ ({how}) have the same canonical form",
    "same-name": "two reactions that differ ({how}) have the same automatic name {0!r}",
    "members": "the {which} of two different reactions ({how}) shows members / arity / type {0}; requested was {1}",
    "canonical-form-size": "the canonical form of the {which} of two different reactions ({how}) has {0} reactants/products for a request of {1}",
    "changed-by-other-request": "the {which} of two different reactions ({how}) shows {0} once the other exists; it was created as {1}",
    "permutation-is-another-object": "the {which} of two different reactions ({how}), requested again with reversed arguments, is another object",
}


def differs_snippet(arg):
    kind, specs, one, two, k = arg
    if kind == "m":
        return f"# harness op c11_reaction_differs {arg!r} (harness/impl/compare.py)"
    return "\n".join([
        "from dsdobjects.base_classes import DomainS, ComplexS, ReactionS",
        "class Rxn(ReactionS): pass" if k else "Rxn = ReactionS",
        "def dom(n):",
        "    try: return DomainS(n, 5)",
        "    except Exception: return DomainS(n)",
        f"specs = {[[s[0], s[1]] for s in specs]!r}",
        "X = [ComplexS([dom(x) if x != '+' else '+' for x in sq], list(st), name='X%d' % i) for i, (sq, st) in enumerate(specs)]",
        f"r1 = Rxn([X[i] for i in {one[0]!r}], [X[i] for i in {one[1]!r}], {one[2]!r})",
        f"r2 = Rxn([X[i] for i in {two[0]!r}], [X[i] for i in {two[1]!r}], {two[2]!r})",
        "assert r1 is not r2 and r1 != r2 and r1.canonical_form != r2.canonical_form and r1.name != r2.name, (r1.name, r2.name)",
        f"assert r1.arity == ({len(one[0])}, {len(one[1])}) and r2.arity == ({len(two[0])}, {len(two[1])}), (r1.arity, r2.arity)",
        f"assert (len(r1.canonical_form[0]), len(r1.canonical_form[1])) == ({len(one[0])}, {len(one[1])})",
        f"assert (len(r2.canonical_form[0]), len(r2.canonical_form[1])) == ({len(two[0])}, {len(two[1])})"])


CALLER_WHAT = {
    "members": "right after the request the object lists {0}; the members of the request in canonical order are {1}",
    "size": "right after the request the size / arity is {0}; the request had {1}",
    "caller-container-changed": "the request changed the caller's own argument container: it now holds {0}, the caller passed {1}",
    "changed-after-caller-edit": "after the caller edited HIS argument container ({step}) the existing object changed: it now shows "
                                 "{0}, it was created as {1}",
    "original-members-no-longer-this-object": "after the caller edited his argument containers, the members of the first request "
                                              "(asked again as reversed tuples) no longer denote the first object",
}


def run(ctx):
    rng, quick = ctx.rng, ctx.tier == "quick"
    res = prove(ctx)
    runner = ensure_model_runner()
    diffs, found = [], []
    if runner.ok:
        reqs, creqs, pops = [], [], []
        for _ in range(12 if quick else 150):
            pop = complexes(rng, 6)
            for size in (1, 2, 3, 4):
                for sub in ([rng.sample(range(6), size) for _ in range(3)]):
                    perms = list(itertools.permutations(sub))
                    rng.shuffle(perms)
                    for p2 in perms[: (3 if quick else 24)]:
                        named = rng.choice([None, rng.randrange(size)])
                        named2 = None if named is None else list(p2).index(sub[named])
                        # the same name must be requested in both permutations: index into perm1
                        reqs.append(("c11_macro", [pop, list(sub), list(p2), named, rng.randrange(2),
                                                   rng.choice(["same", "same", None, rng.randrange(size)])]))
            types = ["open", "bind11", "bind21", "branch-3way", "branch-4way"]
            for _ in range(20 if quick else 200):
                re1 = [rng.randrange(6) for _ in range(rng.randrange(1, 4))]
                pr1 = [rng.randrange(6) for _ in range(rng.randrange(1, 4))]
                re2, pr2 = list(re1), list(pr1)
                rng.shuffle(re2); rng.shuffle(pr2)
                reqs.append(("c11_reaction", ["c", pop, re1, pr1, re2, pr2, rng.choice(types), rng.choice([None, None, "myname"]), rng.randrange(2)]))
            # over macrostates
            # macrostates over disjoint members (overlapping ones could legitimately collide in
            # their automatic names, which is a refused request, not a permutation issue)
            order = rng.sample(range(6), 6)
            cut = sorted(rng.sample(range(1, 6), 3))
            groups = [order[:cut[0]], order[cut[0]:cut[1]], order[cut[1]:cut[2]], order[cut[2]:]]
            # some macrostates carry a user-chosen name: that of any member, not necessarily the smallest
            macs = [[[pop[i] for i in g], 0, rng.choice([None, rng.randrange(len(g))])] for g in groups]
            for _ in range(40 if quick else 200):
                re1 = [rng.randrange(4) for _ in range(rng.randrange(1, 4))]
                pr1 = [rng.randrange(4) for _ in range(rng.randrange(1, 4))]
                re2, pr2 = list(re1), list(pr1)
                rng.shuffle(re2); rng.shuffle(pr2)
                reqs.append(("c11_reaction", ["m", macs, re1, pr1, re2, pr2, "condensed", None, rng.randrange(2)]))
            pops.append((pop, macs))
        # overlapping member sets while the first macrostate is alive (direct statement, no model request)
        oreqs = []
        for _ in range(60 if quick else 1500):
            pop = complexes(rng, 5)
            s1 = rng.sample(range(5), rng.randrange(1, 4))
            s2 = rng.sample(range(5), rng.randrange(1, 4))
            if set(s1) == set(s2):
                continue
            oreqs.append(("c11_macro_overlap", [pop, s1, s2, rng.randrange(2)]))
            # with user-chosen names both can be alive; one member set a subset of the other as well
            s3 = s1 + [i for i in rng.sample(range(5), 2) if i not in s1][:1] if rng.random() < 0.6 else s2
            if set(s3) != set(s1):
                oreqs.append(("c11_macro_overlap", [pop, s1, s3, rng.randrange(2), True]))
            if len(set(s1) & set(s2)) >= 1 and len(s1) >= 2:
                oreqs.append(("c11_macro_overlap", [pop, s1, s2, rng.randrange(2), "shared"]))
        # the caller's argument containers (list / list subclass / deque / tuple) and what he does with them after the
        # request (direct statement, no model request); generated last so that the streams above stay as they were
        types = ["open", "bind11", "bind21", "branch-3way", "branch-4way"]
        for pop, macs in pops:
            for _ in range(8 if quick else 60):
                re1 = [rng.randrange(6) for _ in range(rng.randrange(1, 4))]
                pr1 = [rng.randrange(6) for _ in range(rng.randrange(1, 4))]
                creqs.append(("c11_caller_args", ["c", pop, re1, pr1, rng.choice(types), rng.choice([None, None, "myname"]),
                                                  rng.randrange(2), [rng.choice(FORMS), rng.choice(FORMS)], caller_steps(rng, 6)]))
            for _ in range(4 if quick else 30):
                re1 = [rng.randrange(4) for _ in range(rng.randrange(1, 4))]
                pr1 = [rng.randrange(4) for _ in range(rng.randrange(1, 4))]
                creqs.append(("c11_caller_args", ["m", macs, re1, pr1, "condensed", None, rng.randrange(2),
                                                  [rng.choice(FORMS), rng.choice(FORMS)], caller_steps(rng, 4)]))
        # the same for macrostates (the member container of the first request belongs to the caller)
        mcreqs = []
        for pop, macs in pops:
            for _ in range(6 if quick else 50):
                mem = rng.sample(range(6), rng.randrange(1, 5))
                mcreqs.append(("c11_macro_caller_args", [pop, mem, rng.random() < 0.5, rng.randrange(2), rng.choice(FORMS),
                                                         [st for st in caller_steps(rng, 5) if st[1] != "request"]]))
        # changing a member, a multiplicity or the type denotes a different object (direct statement, no model request):
        # both reactions alive, either one requested first
        dreqs = []
        for pop, macs in pops:
            for kind, specs, npop, n in (("c", pop, 6, 10 if quick else 80), ("m", macs, 4, 6 if quick else 50)):
                for _ in range(n):
                    rtype = rng.choice(types) if kind == "c" else "condensed"
                    one = [[rng.randrange(npop) for _ in range(rng.randrange(1, 4))],
                           [rng.randrange(npop) for _ in range(rng.randrange(1, 4))], rtype]
                    dreqs.append(("c11_reaction_differs", [kind, specs] + differing(rng, one, npop, types + ["condensed"]) + [rng.randrange(2)]))
        for rq, r in zip(mcreqs, run_impl(mcreqs)):
            what = None
            if isinstance(r, Err):
                what = f"a well-formed macrostate request raised {r.kind}"
            elif r[1]:
                n, step, tag_, got, want = r[1][0]
                what = (f"the macrostate's members/length {got} are not those of the request {want}" if tag_ == "members" else
                        f"the request changed the caller's own container: {got} instead of {want}" if tag_ == "caller-container-changed" else
                        f"after the caller edited his container (step {n}: {step[1]} {step[2]}) the existing macrostate changed: {got} instead of {want}")
            if what:
                found.append({"key": {"op": rq[0], "arg": rq[1]}, "input": [rq[0], rq[1]], "what": what,
                              "snippet": f"# harness op c11_macro_caller_args {rq[1]!r} (harness/impl/compare.py); in short: buf=[A,B]; m=MacrostateS(buf); buf.pop(); len(m)"})
        ctx.cov["correspondence"]["macrostate-caller-containers(impl)"] = {"cases": len(mcreqs)}
        okinds = {}
        direct = run_impl(oreqs + creqs + dreqs)  # one batch: large enough to be spread over several processes
        dkinds = {}
        for rq, r in zip(dreqs, direct[len(oreqs) + len(creqs):]):
            dkinds[rq[1][-2][3]] = dkinds.get(rq[1][-2][3], 0) + 1
            what = None
            if isinstance(r, Err):
                what = f"requesting two different unnamed reactions raised {r.kind}"
            elif r:
                n, tag_, got, want = r[0]
                what = DIFFERS_WHAT[tag_].format(got, want, which="first" if n == 0 else "second", how=rq[1][-2][3])
            if what:
                a = rq[1]
                found.append({"key": {"op": rq[0], "arg": a}, "input": [rq[0], a], "what": what,
                              "snippet": differs_snippet(a)})
        ctx.cov["correspondence"]["different-multisets-different-reactions(impl)"] = {"cases": len(dreqs), "by_change": dkinds}
        for rq, r in zip(oreqs, direct[:len(oreqs)]):
            what = None
            if isinstance(r, Err):
                what = f"raised {r.kind}"
            elif r[0] == "shared-refused":
                what = "a macrostate over another member set, named after a member whose name no macrostate carries, was refused"
            elif r[0] == "shared":
                if r[1] or not r[2] or not r[3] or not r[4]:
                    what = f"macrostate named after a member shared with a live macrostate: same object {r[1]}, name/representative ok {r[2]}, length ok {r[3]}, unequal {r[4]}"
            elif r[0] == "named":
                if r[1] or r[2] or not r[3] or r[4] or r[6] != 2:
                    what = (f"macrostates over different member sets: same object {r[1]}, == {r[2]}, != {r[3]}, reversed == {r[4]}, "
                            f"set size {r[6]}")
            elif r[0] == "object":
                if r[1]:
                    what = "a different member set was resolved to the live macrostate"
                elif r[2] != r[4] or r[3] != r[4]:
                    what = (f"an unnamed macrostate got name {r[2]!r} and representative {r[3]!r}; its canonically smallest "
                            f"member is {r[4]!r}")
                elif r[5] != len(set(rq[1][2])) or not r[6]:
                    what = "length / members differ from the requested set"
            okinds[r[0] if not isinstance(r, Err) else r.kind] = okinds.get(r[0] if not isinstance(r, Err) else r.kind, 0) + 1
            if what:
                found.append({"key": {"op": rq[0], "arg": rq[1]}, "input": [rq[0], rq[1]], "what": what,
                              "snippet": f"# harness op {rq[0]} {rq[1]!r} (harness/impl/compare.py)"})
        ctx.cov["correspondence"]["overlapping-macrostates(impl)"] = {"cases": len(oreqs), "outcomes": okinds}
        ckinds = {}
        for rq, r in zip(creqs, direct[len(oreqs):]):
            a = rq[1]
            tag = f"{a[0]}:{'/'.join(a[7])}"
            ckinds[tag] = ckinds.get(tag, 0) + 1
            what = None
            if isinstance(r, Err):
                what = f"a well-formed first request raised {r.kind}"
            elif r[2]:
                # the statement closest to the property text first
                prio = ["members", "size", "changed-after-caller-edit", "original-members-no-longer-this-object", "caller-container-changed"]
                n, step, tag_, got, want = min(r[2], key=lambda pb: prio.index(pb[2]))
                what = CALLER_WHAT[tag_].format(got, want, step=f"step {n}: {step[1]} {step[2] if step[2] is not None else ''}".strip()
                                                if step else "")
            if what:
                found.append({"key": {"op": rq[0], "arg": rq[1]}, "input": [rq[0], rq[1]], "what": what,
                              "snippet": caller_snippet(rq[1])})
        ctx.cov["correspondence"]["caller-argument-containers(impl)"] = {"cases": len(creqs), "by_kind_and_forms": ckinds}
        impl = run_impl(reqs)
        mreqs, idx = [], []
        for k, (rq, r) in enumerate(zip(reqs, impl)):
            if isinstance(r, Err):
                # the same members in two permutations: every request must succeed
                found.append({"key": {"op": rq[0], "arg": rq[1]}, "input": [rq[0], rq[1]],
                              "what": f"requesting the same members in two permutations raised {r.kind}",
                              "snippet": f"# harness op {rq[0]} {rq[1]!r} (harness/impl/compare.py)"})
                continue
            if rq[0] == "c11_macro":
                members, name = r[0], r[1]
                mreqs.append(("macro_identifiers", [[members[i] for i in rq[1][1]], name]))
            else:
                kind, _, re1, pr1 = rq[1][0], None, rq[1][2], rq[1][3]
                members = r[0]
                mreqs.append(("reaction_identifiers_" + kind, [[members[i] for i in re1], [members[i] for i in pr1], rq[1][6], rq[1][7]]))
            idx.append(k)
        model = run_model(mreqs)
        kinds, distinct = {}, set()
        for k, m, mr in zip(idx, model, mreqs):
            rq, r = reqs[k], impl[k]
            kinds[rq[0]] = kinds.get(rq[0], 0) + 1
            distinct.add(json.dumps(mr[1]))
            what = None
            if rq[0] == "c11_macro":
                obs = r[2]
                if m != obs:
                    diffs.append((k, mr, m, obs))
                if not r[6]:
                    what = "the complexes view does not list exactly the members of the canonical form"
                elif r[7] == "refused-none":
                    what = "the same member set requested again was refused without naming the existing macrostate"
                elif not (r[3] and r[4] and r[5]):
                    what = f"two permutations of the members denote different macrostates (same object: {r[3]}, same canonical form: {r[4]}, same name: {r[5]})"
                elif obs[3] != len(set(rq[1][1])):
                    what = f"len() is {obs[3]} for {len(set(rq[1][1]))} members"
            else:
                obs = r[1]
                if m != obs:
                    diffs.append((k, mr, m, obs))
                keys = {n: k_ for k_, n in r[0]}
                want_re = sorted((keys[r[0][i][1]], r[0][i][1]) for i in rq[1][2])
                want_pr = sorted((keys[r[0][i][1]], r[0][i][1]) for i in rq[1][3])
                if not r[2]:
                    what = "two permutations of the reactants/products denote different reactions"
                elif [n for _, n in want_re] != obs[2] or [n for _, n in want_pr] != obs[3]:
                    what = (f"reactants/products listed as {obs[2]} -> {obs[3]}, canonical order is "
                            f"{[n for _, n in want_re]} -> {[n for _, n in want_pr]}")
                elif r[3] != [len(rq[1][2]), len(rq[1][3])]:
                    what = f"arity {r[3]} for {len(rq[1][2])} reactants and {len(rq[1][3])} products"
            if what:
                found.append({"key": {"op": rq[0], "arg": rq[1]}, "input": [rq[0], rq[1]], "what": what,
                              "snippet": f"# harness op {rq[0]} {rq[1]!r} (harness/impl/compare.py)"})
        refused = {}
        for rq, r in zip(reqs, impl):
            if isinstance(r, Err):
                refused[r.kind] = refused.get(r.kind, 0) + 1
        ctx.cov["correspondence"]["sets"] = {"cases": len(reqs), "compared": len(idx), "disagreements": len(diffs),
                                             "by_op": kinds, "refused": refused}
        ctx.add_eval(len(reqs), len(distinct), samples=[{"req": reqs[0], "impl": impl[0]}])
    ctx.cov["rule"] = ("populations of 6 distinct complexes / 4 macrostates; every subset size 1-4 in several permutations "
                       "(first request in one permutation, second in another, named by a member or unnamed), reactions with "
                       "repeated members and shuffled argument lists, all types; pairs of reactions that differ in a multiplicity, a "
                       "member or the type, either requested first; first requests made with caller-owned lists, "
                       "list subclasses, deques and tuples that the caller then clears, refills, extends, reorders or "
                       "re-uses for further requests; non-trivial = distinct member lists")
    if found and res["ok"] and not diffs:
        for f in found[:10]:
            ctx.violation("counterexample", f)
        return
    conclude(ctx, res, runner, diffs, lambda d: found)


def replay(data):
    inp = data.get("input")
    if not inp:
        print(json.dumps(data.get("broken_links"))[:2000]); return 1
    r = run_impl([(inp[0], inp[1])])[0]
    print(r)
    return 1
