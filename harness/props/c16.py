"""C16 — bad input is rejected with declared errors; every referenced global is defined."""
import json, os
from common import prove, run_oracle, COQ
from flow import conclude
import gen_pil


def corruptions(rng, S, n_each=2):
    """single-fault corruptions of a valid document, each at a random position"""
    base = [gen_pil.render_stmt(S, it) for it in S.order]
    out = []
    def doc(lines):
        return "\n".join(lines) + "\n"
    for _ in range(n_each):
        if not base:
            break
        i = rng.randrange(len(base))
        # an undeclared / dropped object
        out.append(("dropped-declaration", doc(base[:i] + base[i + 1:])))
        # a conflicting redeclaration at a later position
        kind, key = S.order[i]
        if kind == "domain":
            L, seq = S.domains[key]
            out.append(("conflicting-domain", doc(base + [f"length {key} = {L + 1}"])))
            out.append(("conflicting-complement", doc(base + [f"length {key}* = {L + 2}"])))
            out.append(("wrong-explicit-length", doc(base + [f"sequence q{i} = ACGT : 7"])))
            out.append(("foreign-nucleotide", doc(base + [f"sequence q{i} = ACGX"])))
        if kind == "complex":
            sq, st, conc, _ = S.complexes[key]
            other = rng.choice(list(S.complexes))
            out.append(("duplicate-complex-other-name", doc(base + [f"dup{i} = {gen_pil.kernel_string(sq, st)}"])))
            out.append(("name-reused", doc(base + [f"{key} = {gen_pil.kernel_string(*S.complexes[other][:2])} {list(S.domains)[0]}"])))
        if kind == "macrostate":
            out.append(("macrostate-redeclared", doc(base + [f"state {key} = [{key}]", f"state {key} = [{', '.join(list(S.complexes)[:3])}]"])))
            out.append(("macrostate-foreign-name", doc(base + [f"state nobody = [{key}]"])))
        if kind == "reaction":
            re, pr, rt, rate, units = S.reactions[key]
            lhs = " + ".join(re) + " -> " + " + ".join(pr)
            out.append(("reaction-no-rate", doc(base + [f"reaction {lhs}"])))
            out.append(("reaction-unknown-type", doc(base + [f"reaction [strange = 5 /s] {lhs}"])))
            out.append(("reaction-no-type", doc(base + [f"reaction [5 /s] {lhs}"])))
            out.append(("reaction-odd-units", doc(base + [f"reaction [{rt} = 5 +/- inf /M/M/M/h] {lhs}"])))
            out.append(("reaction-wrong-kind", doc(base + [f"reaction [{'open' if rt == 'condensed' else 'condensed'} = 1 /s] {lhs}"])))
            # two oddities in one line: a reaction of the ignored kind that also names species nobody declared
            out.append(("ignored-reaction-undeclared-species", doc(base + [rng.choice([
                "reaction nobody1 + nobody2 -> nobody3", f"reaction [strange = 5 /s] nobody1 -> {re[0]}",
                f"reaction [5 /s] {re[0]} -> nobody1", "reaction [weird = 1 /M/s] nobody1 + nobody1 -> nobody2"])])))
    names = list(S.strands)
    doms = list(S.domains)
    if names:
        s1 = names[0]
        n1 = len(S.strands[s1])
        out.append(("strand-complex", doc(base + [f"structure SC = {s1} : {'.' * n1}"])))
        out.append(("strand-complex-wrong-length", doc(base + [f"structure SC = {s1} : {'.' * (n1 + 1)}"])))
        out.append(("strand-complex-unbalanced", doc(base + [f"structure SC = {s1} + {s1} : {')' + '.' * (n1 - 1)}+{'(' + '.' * (n1 - 1)}"])))
        out.append(("strand-complex-unbalanced2", doc(base + [f"structure SC = {s1} + {s1} : {'(' + '.' * (n1 - 1)}+{'.' * n1}"])))
        out.append(("strand-complex-undeclared", doc(base + [f"structure SC = nostrand : ."])))
        out.append(("strand-complex-no-strands", doc(base + ["structure SC = + : +"])))
        for L in (1, 2, n1, 2 * n1, 2 * n1 + 2, 3 * n1 + 4):
            st = "".join(rng.choice(".()+") for _ in range(L)) if rng.random() < 0.5 else "." * L
            out.append(("strand-complex-2-strands-length-%s" % ("short" if L < 2 * n1 + 1 else "long" if L > 2 * n1 + 1 else "ok"),
                        doc(base + [f"structure SC = {s1} + {s1} : {st}"])))
        out.append(("strand-complex-3-strands-short", doc(base + [f"structure SC = {s1} + {s1} + {s1} : {'.' * n1}+."])))
        out.append(("strand-complex-trailing-plus", doc(base + [f"structure SC = {s1} + : {'.' * n1}+"])))
        out.append(("strand-complex-complex-keyword", doc(base + [f"complex SC :", f"{s1} {s1}", f"{'.' * n1} + {'.' * n1}"])))
        out.append(("composite-in-kernel", doc(base + [f"KC = {s1}( ) {s1}*"])))
        out.append(("strand-redeclared", doc(base + [f"strand {s1} = {doms[0]} {doms[0]} {doms[0]} {doms[0]}"])))
        # the same composition under a second name (both keywords), and a name and a composition that belong to two strands
        comp1 = " ".join(S.strands[s1])
        out.append(("strand-same-content-other-name", doc(base + [f"strand dup_{s1} = {comp1}"])))
        out.append(("strand-same-content-other-name-sup", doc(base + [f"sup-sequence dup2_{s1} = {comp1}"])))
        if len(names) > 1:
            out.append(("strand-name-and-content-of-two", doc(base + [f"strand {names[1]} = {comp1}"])))
        # strand notation with the strand breaks of the structure NOT where the strands end (balanced, right total length)
        for a_, b_ in ((s1, names[-1]), (names[-1], s1)):
            na, nb = len(S.strands[a_]), len(S.strands[b_])
            for _ in range(3):
                k_ = rng.randrange(0, na + nb + 1)
                flat = [rng.choice(".()") for _ in range(na + nb)]
                misplaced = "".join(flat[:k_]) + "+" + "".join(flat[k_:])
                out.append(("strand-complex-break-misplaced", doc(base + [f"structure SM = {a_} + {b_} : {misplaced}"])))
            if na + nb >= 4:
                out.append(("strand-complex-break-misplaced-balanced", doc(base + [f"structure SM = {a_} + {b_} : " + "(" + "+" + "()" + "." * (na + nb - 4) + ")"])))
                out.append(("strand-complex-break-misplaced-balanced", doc(base + [f"structure SM = {a_} + {b_} : " + "(" * 1 + "." * (na + nb - 2) + "+" + ")"])))
    if doms:
        d = doms[0]
        out.append(("degenerate-empty-strand", doc(base + [f"E1 = {d} +"])))
        out.append(("degenerate-leading-plus", doc(base + [f"E2 = + {d}"])))
        out.append(("degenerate-double-plus", doc(base + [f"E3 = {d} + + {d}"])))
        # a domain declared again with another sequence (compatible, incompatible, foreign letters, lower case)
        out.append(("redeclared-sequence-foreign", doc(base + ["sequence rs1 = ACGTAC", "sequence rs1 = ACGTAX"])))
        out.append(("redeclared-sequence-lowercase", doc(base + ["sequence rs2 = ACGTAC", "sequence rs2 = acgtac : 6"])))
        out.append(("redeclared-sequence-incompatible", doc(base + ["sequence rs3 = ACGTAC", "sequence rs3 = TTTTTT"])))
        out.append(("redeclared-sequence-compatible", doc(base + ["sequence rs4 = ACGTAN", "sequence rs4 = ACGTAC"])))
        out.append(("redeclared-sequence-after-length", doc(base + ["length rs5 = 4", "sequence rs5 = ACGX", "sequence rs5 = ACGT"])))
        out.append(("redeclared-sequence-other-length", doc(base + ["sequence rs6 = ACGT", "sequence rs6 = ACGTA"])))
        out.append(("degenerate-only-plus", doc(base + ["E3b = +"])))
        out.append(("degenerate-only-pluses", doc(base + ["E3c = + +"])))
        out.append(("degenerate-paired-nothing", doc(base + [f"E3d = {d}( + )"])))
        out.append(("undeclared-domain", doc(base + [f"E4 = {d} nodomain"])))
        out.append(("undeclared-domain-paired", doc(base + [f"E5 = nodomain( {d} )"])))
        out.append(("caret-domain", doc(base + [f"E6 = {d}^ {d}^*"])))
        out.append(("zero-length", doc(base + [f"length z0 = 0", f"E7 = z0 z0*"])))
        out.append(("conc-on-known", doc(base + [f"E8 = {d} @initial 1e-3 nM", f"E8 = {d} @constant 5 M"])))
    return out


def token_mutations(rng, text, n):
    toks = text.replace("\n", " \n ").split(" ")
    out = []
    pool = ["=", ":", "(", ")", "+", "[", "]", "->", "@initial", "5", "short", "*", "\n", "state", "reaction", "length", "x", "#"]
    for _ in range(n):
        t = list(toks)
        for _ in range(rng.randrange(1, 4)):
            i = rng.randrange(len(t))
            k = rng.randrange(3)
            if k == 0:
                del t[i]
            elif k == 1:
                t.insert(i, rng.choice(pool))
            else:
                t[i] = rng.choice(pool)
        out.append(("multi-fault", " ".join(t).replace(" \n ", "\n")))
    return out


# ---- the info-box of a reaction line: [type = rate +/- error units], every part present / absent / odd ----
def infobox_variants(rtype, rng=None):
    """every combination of (type: the declared one / unknown / absent) x (rate: present / absent) x
    (error estimate: present / absent) x (units: usual / absent / unusual); with rng the spellings vary"""
    pick = (lambda xs: rng.choice(xs)) if rng else (lambda xs: xs[0])
    out = []
    for ty in (rtype, "strange", None):
        for rate in (pick(["5", "1.5e6", "0", "2.5e-3"]), None):
            for err in (None, pick(["20", "inf", "0.5"])):
                for units in (pick(["/M/s", "/s", "/nM/h"]), None, pick(["/nM/nM/h", "/M/M/M/h", "/pM/uM/m"])):
                    parts = ([f"{ty} ="] if ty else []) + ([rate] if rate else []) + ([f"+/- {err}"] if err else []) + \
                            ([units] if units else [])
                    out.append({"type": ty, "rate": rate, "err": err, "units": units, "box": "[" + " ".join(parts) + "]"})
    return out


def infobox_cases(rng, S, base, n):
    """n random info-box variants appended to a valid document (reactants/products of a declared reaction, or
    any two declared complexes)"""
    out = []
    def doc(lines):
        return "\n".join(lines) + "\n"
    if S.reactions:
        re_, pr_, rt = rng.choice(S.reactions)[:3]
    elif S.complexes:
        cn = list(S.complexes)
        re_, pr_, rt = [rng.choice(cn)], [rng.choice(cn)], "open"
    else:
        return out
    lhs = " + ".join(re_) + " -> " + " + ".join(pr_)
    for v in rng.sample(infobox_variants(rt, rng), n):
        kw = rng.choice(["reaction", "kinetic"])
        kind = "infobox-" + "-".join(("type" if v["type"] == rt else "unknowntype" if v["type"] else "notype",
                                      "rate" if v["rate"] else "norate", "error" if v["err"] else "noerror",
                                      "units" if v["units"] else "nounits"))
        c = {"kind": kind, "text": doc(base + [f"{kw} {v['box']} {lhs}"])}
        if v["rate"] and v["units"] and v["type"] != rt:
            # well-formed box of a reaction that is announced as ignored (no type / unknown type): survived, nothing added
            c["must_read"] = True
            c["expect_reactions"] = len(S.reactions)
        out.append(c)
    return out


# ---- the `ignore` argument of read_pil: a collection of statement kinds, in every container form ----
STATEMENT_KINDS = ["dl-domain", "sl-domain", "composite-domain", "strand-complex", "kernel-complex", "resting-macrostate",
                   "reaction"]
IGNORE_FORMS = ["list", "tuple", "set", "frozenset", "dict"]


def ignore_readable(S, items):
    """the remaining statements of a valid document are still a consistent system: only reactions and/or macrostates are
    skipped, and no remaining (condensed) reaction needs a skipped macrostate"""
    ig = set(items) & set(STATEMENT_KINDS)
    if not ig <= {"reaction", "resting-macrostate"}:
        return False
    if "resting-macrostate" in ig and "reaction" not in ig and any(r[2] == "condensed" for r in S.reactions):
        return False
    return True


def ignore_cases(rng, S, base, n):
    """the valid document (and the document plus a reaction line of the ignored kinds) read with `ignore` given as a
    list / tuple / set / frozenset / dict of statement kinds and strings that are no statement kind"""
    out = []
    def doc(lines):
        return "\n".join(lines) + "\n"
    cn = list(S.complexes)
    for _ in range(n):
        form = rng.choice(IGNORE_FORMS)
        pool = STATEMENT_KINDS + ["reaction", "resting-macrostate", "no-such-kind", "", "Reaction"]
        items = [rng.choice(pool) for _ in range(rng.randrange(0, 4))]
        lines, extra = list(base), rng.random()
        if cn and extra < 0.5:
            a, b = rng.choice(cn), rng.choice(cn)
            lines.append(rng.choice([f"reaction {a} -> {b}", f"kinetic [strange = 5 /s] {a} + {b} -> {b}",
                                     f"reaction [7 /M/s] {a} + {a} -> {b}"]))
        c = {"kind": "ignore-" + form + ("-plus-ignored-reaction" if len(lines) > len(base) else ""),
             "text": doc(lines), "ignore": {"form": form, "items": items}}
        if ignore_readable(S, items):
            c["must_read"] = True
            c["expect_reactions"] = 0 if "reaction" in items else len(S.reactions)
        out.append(c)
    return out


def ignore_source(ig):
    """Python source of the `ignore` argument of a case (for the snippet of a failing input)"""
    if not ig:
        return ""
    items = repr(list(ig["items"]))
    return ", ignore = " + {"list": items, "tuple": f"tuple({items})", "set": f"set({items})", "frozenset": f"frozenset({items})",
                            "dict": f"dict.fromkeys({items}, True)"}[ig["form"]]


def small_scope_documents():
    """exhaustive over the small scope: one tiny system; every info-box variant; every container form of `ignore` with
    single statement kinds and a string that is no kind"""
    base = ["length a = 6", "length b = 6", "sequence c = ACGT", "strand s = a b", "A = a b", "B = b* a*", "AB = a( b( + ) )",
            "structure SA = s + s : ..+..", "state A = [A]", "state B = [B]", "state AB = [AB]"]
    rx = ["reaction [bind21 = 1.5e6 /M/s] A + B -> AB", "reaction [condensed = 2 /M/s] A + B -> AB", "reaction AB -> A + B"]
    out = []
    for v in infobox_variants("bind21"):
        c = {"kind": "infobox-small-scope", "text": "\n".join(base + [f"reaction {v['box']} A + B -> AB"]) + "\n"}
        if v["rate"] and v["units"]:
            c["must_read"] = True
            c["expect_reactions"] = 1 if v["type"] == "bind21" else 0
        out.append(c)
    for n, form in enumerate(IGNORE_FORMS):
        # (every other kind is met with some form here and with random forms in ignore_cases)
        for items in [["reaction"], ["resting-macrostate"], ["no-such-kind"], [STATEMENT_KINDS[n]]]:
            c = {"kind": "ignore-small-scope", "text": "\n".join(base + rx) + "\n", "ignore": {"form": form, "items": items}}
            if items in (["reaction"], ["no-such-kind"]):
                c["must_read"] = True
                c["expect_reactions"] = 0 if "reaction" in items else 2
            out.append(c)
    return out


# ---- the reader used one line at a time: read_pil_line given TEXT, statement after statement, in one session ----
def ignorable_lines(rng, names, rtype, n):
    """n reaction lines of the kinds the reader announces as ignored (no rate / no type / unknown type, any spelling of
    the rest of the info-box, declared or undeclared species)"""
    boxes = [v for v in infobox_variants(rtype, rng) if v["type"] != rtype and v["rate"] and v["units"]] + [{"box": ""}] * 4
    out = []
    for _ in range(n):
        pool = list(names) + ["nobody1", "nobody2"] if rng.random() < 0.3 else list(names) or ["nobody1"]
        lhs = " + ".join(rng.choice(pool) for _ in range(rng.randrange(1, 3))) + " -> " + \
              " + ".join(rng.choice(pool) for _ in range(rng.randrange(1, 3)))
        out.append(" ".join(x for x in (rng.choice(["reaction", "kinetic"]), rng.choice(boxes)["box"], lhs) if x))
    return out


def by_line_cases(rng, S, base):
    """a valid document with ignorable reaction lines at random places (some of them twice), read through read_pil_line
    as text line by line, two or three passes in one session, then as a whole"""
    rt = S.reactions[0][2] if S.reactions else "open"
    ign = ignorable_lines(rng, list(S.complexes), rt, rng.randrange(1, 4))
    lines = list(base)
    for l in ign + ([rng.choice(ign)] if rng.random() < 0.5 else []):
        lines.insert(rng.randrange(len(lines) + 1), l)
    return [{"kind": "by-line-valid-plus-ignored", "text": "\n".join(lines) + "\n", "must_read": True,
             "expect_reactions": len(S.reactions), "by_line": {"repeat": rng.randrange(2, 4), "ignorable": sorted(set(ign))}}]


def by_line_small_scope():
    """every statement kind and every ignorable info-box of the small scope, line by line, two passes"""
    base = ["length a = 6", "length b = short", "sequence c = ACGT", "sequence d = ACGTN : 5", "strand s = a b",
            "sup-sequence t = c d : 9", "A = a b", "B = b* a* @initial 5 nM", "AB = a( b( + ) )",
            "structure SA = s + s : ..+..", "state A = [A]", "state B = [B]", "state AB = [AB]",
            "reaction [bind21 = 1.5e6 /M/s] A + B -> AB", "reaction [condensed = 2 /M/s] A + B -> AB"]
    ign = [f"reaction {v['box']} A + B -> AB" for v in infobox_variants("bind21")
           if v["type"] != "bind21" and v["rate"] and v["units"]] + ["reaction AB -> A + B", "kinetic A + A -> nobody"]
    ign = sorted(set(ign))
    return [{"kind": "by-line-small-scope", "text": "\n".join(base + ign) + "\n", "must_read": True, "expect_reactions": 2,
             "by_line": {"repeat": 2, "ignorable": ign}}]


FIXED_DOCUMENTS = [
    ("huge-length", "length a = 99999999999999999999999\nX = a( a* )\n"),
    ("zero-length-only", "length z = 0\n"),
    # every statement kind that can mention a domain of extreme length, with the optional explicit lengths spelled out
    ("huge-length-everywhere", "length a = 99999999999999999999999\nlength z = 0\nsequence n = ACGT : 4\n"
                               "strand s = a z n : 100000000000000000000003\nsup-sequence t = a* : 99999999999999999999999\n"
                               "strand u = z = 0\nX = s( + ) z\nY = t a\nstructure Z = s + u : ...+.\nW = a( z( n + ) ) @i 1 nM\n"
                               "state X = [X, Y]\nreaction [bind21 = 1 /M/s] X + Y -> Z\n"),
    ("huge-length-wrong-strand-length", "length a = 99999999999999999999999\nstrand s = a a* : 5\nX = s\n"),
    # strands of unequal length, break of the structure misplaced: a paired locus that exists in the structure only
    ("strand-complex-break-misplaced-fixed", "length a = 5\nlength b = 6\nlength c = 7\nstrand s1 = a b\nstrand s2 = b* a* c\n"
                                             "structure X = s1 + s2 : (+().)\n"),
    ("strand-same-content-fixed", "length a = 5\nlength b = 6\nstrand A = a b\nsup-sequence ab = a b\n"),
]


def undefined_globals():
    idx = json.load(open(os.path.join(COQ, "gen", "GlobalNames.index.json")))
    # recompute definedness from the probe data the translator saved
    import subprocess, common
    p = subprocess.run([common.PY, os.path.join(common.HARNESS, "probes", "globals_probe.py")],
                       stdout=subprocess.PIPE, stderr=subprocess.PIPE, text=True, env=common.env_for_impl())
    d = json.loads(p.stdout)
    bad = []
    for m, q, line, name in d["refs"]:
        if name not in d["modules"].get(m, []):
            bad.append({"module": m, "function": q, "line": line, "name": name})
    return bad


def run(ctx):
    rng, quick = ctx.rng, ctx.tier == "quick"
    res = prove(ctx)
    if ctx.gen.get("gen_globals"):
        res["ok"] = False
        res["build"].excerpt = "translator failed (fail-closed): " + ctx.gen["gen_globals"]
    # fault streams (support for the witness search; run on every run)
    cases, kinds = [], {}
    n_sys = 60 if quick else 1200
    systems = []
    for _ in range(n_sys):
        S = gen_pil.make_system(rng)
        systems.append(S)
        valid = gen_pil.render(S)
        prelude = valid if rng.random() < 0.3 else None
        # the valid document itself, in a random layout (keyword aliases, optional explicit lengths, comments)
        kinds["valid-layout"] = kinds.get("valid-layout", 0) + 1
        cases.append({"kind": "valid-layout", "text": gen_pil.render(S, rng, layout=True)})
        for kind, text in corruptions(rng, S):
            kinds[kind] = kinds.get(kind, 0) + 1
            c = {"kind": kind, "text": text}
            if prelude and rng.random() < 0.3:
                c["prelude"] = prelude
            if kind in ("reaction-no-rate", "reaction-unknown-type", "reaction-no-type"):
                c["expect_reactions"] = len(S.reactions)
            if kind in ("reaction-no-rate", "reaction-unknown-type", "reaction-no-type", "ignored-reaction-undeclared-species") \
                    and "prelude" not in c:
                c["must_read"] = True          # ignored lines never abort the read of an otherwise valid document
            cases.append(c)
        for kind, text in token_mutations(rng, valid, 3 if quick else 10):
            kinds[kind] = kinds.get(kind, 0) + 1
            cases.append({"kind": kind, "text": text})
    # always-run documents: a length above sys.maxsize (formerly OverflowError from len() inside
    # DomainS.identifiers, repaired) and a zero length (formerly treated as "no length given")
    for kind, text in FIXED_DOCUMENTS:
        kinds[kind] = kinds.get(kind, 0) + 1
        cases.append({"kind": kind, "text": text})
    # argument forms and partial statements (drawn after the streams above, which therefore stay what they were):
    # the info-box of a reaction with every part present / absent / odd, and `ignore` in every container form
    for c in small_scope_documents():
        kinds[c["kind"]] = kinds.get(c["kind"], 0) + 1
        cases.append(c)
    for S in systems:
        base = [gen_pil.render_stmt(S, it) for it in S.order]
        for c in infobox_cases(rng, S, base, 1 if quick else 3) + ignore_cases(rng, S, base, 1 if quick else 3):
            kinds[c["kind"]] = kinds.get(c["kind"], 0) + 1
            cases.append(c)
    # the reader used one line at a time (read_pil_line given text; drawn after everything above)
    for c in by_line_small_scope():
        kinds[c["kind"]] = kinds.get(c["kind"], 0) + 1
        cases.append(c)
    for S in systems if not quick else systems[:6]:
        base = [gen_pil.render_stmt(S, it) for it in S.order]
        if not base:
            continue
        for c in by_line_cases(rng, S, base):
            kinds[c["kind"]] = kinds.get(c["kind"], 0) + 1
            cases.append(c)
        # a single-fault corruption, line by line as well: declared errors only, whatever is held
        kind, text = rng.choice(corruptions(rng, S, 1))
        c = {"kind": "by-line-" + kind, "text": text, "by_line": {"repeat": 2}}
        kinds[c["kind"]] = kinds.get(c["kind"], 0) + 1
        cases.append(c)
    out = run_oracle("c16.py", {"cases": cases})
    ctx.cov["fault_stream"] = {"documents": len(cases), "by_kind": kinds, "failures": len(out["failures"])}
    ctx.add_eval(len(cases), len({c["text"] + "\0" + json.dumps(c.get("ignore")) for c in cases}), samples=[cases[0], cases[-1]])
    ctx.cov["rule"] = ("static: every LOAD_GLOBAL / module-level LOAD_NAME of every code object of the package (theorem over the "
                       "regenerated table); dynamic: single-fault corruptions of generated valid documents at random positions "
                       "and token-level multi-fault mutations, reaction info-boxes with every part present / absent / odd, and "
                       "`ignore` given as list / tuple / set / frozenset / dict, and documents handed to read_pil_line as text line by "
                       "line (ignorable lines included, several passes in one session), run against the implementation; "
                       "non-trivial = distinct documents")
    ctx.cov["partial"] = ["reader_declared_only_full: the model-level outcome kinds OutOfFuel / BadRequest / Unmodelled are not "
                          "excluded by a theorem (they never occurred in any correspondence run)"]
    found, seen_keys = [], set()
    for f in out["failures"]:
        # one witness per (kind of document, kind of failure), at most 10
        k = (f["case"]["kind"], f["what"].split(":")[0])
        if k in seen_keys or len(found) >= 10:
            continue
        seen_keys.add(k)
        found.append({"key": {"kind": f["case"]["kind"], "what": f["what"].split(":")[0]}, "input": f["case"], "what": f["what"],
                      "snippet": ("from dsdobjects.objectio import *; set_io_objects(); held = [read_pil_line(l) for n in range(" +
                                  str(f["case"]["by_line"].get("repeat", 1)) + ") for l in " + repr(f["case"]["text"]) +
                                  ".split('\\n') if l.strip()]; read_pil(" + repr(f["case"]["text"]) + ")")
                                 if f["case"].get("by_line") else
                                 "from dsdobjects.objectio import *; set_io_objects(); read_pil(" + repr(f["case"]["text"]) +
                                 ignore_source(f["case"].get("ignore")) + ")"})

    def search(_):
        s = list(found)
        for u in undefined_globals()[:10]:
            s.append({"key": u, "input": u, "what": f"{u['module']}.{u['function']} (line {u['line']}) references the undefined global name {u['name']!r}",
                      "snippet": f"import {u['module']}  # then execute the branch at line {u['line']} of {u['function']}"})
        return s

    if found and res["ok"]:
        # a dynamic clause fails although every theorem checks: report the witnesses directly
        for f in found:
            ctx.violation("counterexample", f)
        return
    conclude(ctx, res, None, [], search)


def replay(data):
    inp = data.get("input")
    if not inp or "text" not in inp:
        print("static finding / broken link:", json.dumps(inp or data.get("broken_links"))[:2000])
        return 1
    out = run_oracle("c16.py", {"cases": [inp]})
    print(json.dumps(out))
    return 1 if out["failures"] else 0
