"""C09 — splitting yields exactly the connected components."""
import json, random
from common import prove, ensure_model_runner, run_oracle, run_model, Err, enc
from corr import correspond, shrink, disagree_one
from flow import conclude
import gen_structs as gs
import loops_common as lc
from props.c08 import read_partial


def req_for(op, s, seq=None):
    if op == "split_complex_pt":
        return (op, [lc.unique_stab(s), lc.table_of(s)])
    if op == "split_complex_db":
        return (op, [seq or lc.unique_seq(s), list(s)])
    if op == "cx_split":
        return (op, [seq, list(s)])
    raise KeyError(op)


def requests(ctx):
    rng = ctx.rng
    quick = ctx.tier == "quick"
    L = 8 if quick else 10
    small = lc.small_scope(L)
    batches, origin = {}, {}

    def add(name, op, structs, seqf=None):
        reqs = []
        for s in structs:
            rq = req_for(op, s, seq=seqf(s) if seqf else None)
            origin[enc(rq[1])] = (op, s)
            reqs.append(rq)
        batches.setdefault(name, []).extend(reqs)

    two = lambda s: gs.seq_for(rng, s, names=("a", "b"), complementary=rng.random() < 0.8)
    # (i) small scope: every well-formed structure, any number and nesting of components
    add("split_complex_pt/exhaustive", "split_complex_pt", small)
    add("split_complex_db/exhaustive", "split_complex_db", small, seqf=lambda s: two(s) if rng.random() < 0.5 else None)
    # (ii) structured random: up to 60 strands, components nested / interleaved / adjacent
    big = [lc.random_mixed(rng) for _ in range(500 if quick else 10000)]
    big += ["+".join(["(+)"] * 30), "(" + "+.+".join(["(+)"] * 12) + ")", "(.+" * 29 + "." + "+.)" * 29,
            "(" * 50 + "+.+" + ")" * 50, ".+" * 59 + "."]
    big = [s for s in big if gs.is_wf(s) and gs.nonempty_strands(s) and s.count("+") < 60]
    add("split_complex_pt/random", "split_complex_pt", big)
    add("split_complex_db/random", "split_complex_db", big[: len(big) // 2])
    # (iii) damaged tables / tables of another shape than the strand table: error paths
    dmg = []
    for s in small[:: (3 if quick else 1)] + big[:150]:
        t = lc.damage(rng, lc.table_of(s))
        st = lc.unique_stab(s)
        if rng.random() < 0.2 and len(st) > 1:
            st = st[:-1]
        dmg.append(("split_complex_pt", [st, t]))
    batches["split_complex_pt/damaged-tables"] = dmg
    # empty strands (outside the property, inside the model)
    empties = [s for s in gs.all_wf(6 if quick else 7, nonempty=False) if not gs.nonempty_strands(s)]
    batches["split_complex_pt/empty-strands"] = [("split_complex_pt", [[["x"] * len(r) for r in lc.table_of(s)], lc.table_of(s)])
                                                 for s in empties]
    # (iv) object level: split() twice on a fresh complex; two domain names only, so that
    # components coincide (also up to rotation) and must be yielded as the same object
    small_obj = lc.small_scope(L - 1)
    add("split_objects/exhaustive", "cx_split", small_obj, seqf=two)
    sym = ["(+)+(+)", "(+)+.+(+)", "(.+)+(+.)", "(+(+)+)+(+)", ".+.+.", "(+.)+(.+)+(+.)", "((+)+(+))+(+)"]
    add("split_objects/symmetric", "cx_split", sym * 3,
        seqf=lambda s: gs.seq_for(rng, s, names=("a",), complementary=True))
    add("split_objects/random", "cx_split", big[: (120 if quick else 3000)],
        seqf=lambda s: gs.seq_for(rng, s, names=("a", "b", "c"), complementary=True))
    # (v) object level with registries: components that exist beforehand (any rotation; explicit,
    # automatic or clashing names), unrelated complexes, split() twice, everything kept alive
    multi = [s for s in lc.small_scope(6 if quick else 7) if "+" in s]
    hist = [("cx_split_hist", lc.split_history(rng, rng.choice(multi))) for _ in range(900 if quick else 12000)]
    hist += [("cx_split_hist", lc.split_history(rng, s, names=("a", "b", "c"))) for s in big[: (60 if quick else 1500)] if "+" in s]
    # identical strands with a structure that is NOT symmetric under the same shift, as components and as pre-existing
    # complexes in other rotations
    rep = [s for s in multi if any(len(set(map(len, [s.split("+")[i] for i in ids]))) < len(ids) for ids in lc.components(s))]
    rep += ["(.+.)+(.+.)", ".(+).+(.+.)", "(.+.)+..", "(.+.)+.(+).", "((+.)+.)+.", "(.+(.+.).)+..", ".(+)(+).+.(+)(+)."]
    hist += [("cx_split_hist", lc.split_history(rng, s, seq=lc.periodic_seq(s))) for s in rep * (3 if quick else 10)][: (600 if quick else 8000)]
    batches["split_objects/histories"] = hist
    # (vi) any number of runs of split() on the same object: generators advanced a bounded number of times and then
    # abandoned (closed, released, left suspended), runs that end in SingletonError, ComplexS.ID assigned between runs;
    # nothing of an earlier run may survive in the object (the model runs the generator body anew each time)
    rh = [lc.split_history(rng, rng.choice(multi)) for _ in range(400 if quick else 8000)]
    rh += [lc.split_history(rng, s, names=("a", "b", "c")) for s in big[: (25 if quick else 1000)] if "+" in s]
    rh += [lc.split_history(rng, s, seq=lc.periodic_seq(s)) for s in rep * (1 if quick else 5)][: (100 if quick else 3000)]
    rh = [(h, lc.split_runs(rng, "".join(h[1][1]))) for h in rh]
    batches["split_objects/runs"] = [("cx_split_runs", [h[0], h[1], [r[:2] for r in runs]]) for h, runs in rh]
    impl_of = {"split_objects/runs": [("cx_split_runs", [h[0], h[1], runs]) for h, runs in rh]}
    return batches, origin, small, big, impl_of


def run(ctx):
    from common import run_impl, Err
    res = prove(ctx)
    runner = ensure_model_runner()
    diffs = []
    origin, small, big = {}, [], []
    if runner.ok:
        batches, origin, small, big, impl_of = requests(ctx)
        for name, reqs in batches.items():
            if name.endswith("damaged-tables"):
                # a damaged table may pair out of the spliced block: Python then produces a
                # negative strand index, which the model's locations (naturals) cannot express;
                # the model itself says which requests stay inside its domain, the rest is dropped
                ok = run_model([("split_in_domain", rq[1][1]) for rq in reqs])
                keep = [rq for rq, r in zip(reqs, ok) if r is True]
                ctx.cov["damaged_tables_outside_model_domain"] = len(reqs) - len(keep)
                reqs = keep
            diffs += correspond(ctx, name, reqs, impl_reqs=impl_of.get(name))
    ctx.cov["rule"] = ("every well-formed structure with non-empty strands up to the tier's length bound (8 quick / 10 "
                       "thorough) for split_complex_pt (unique strand contents) and split_complex_db, one length less "
                       "for ComplexS.split() run twice on a fresh complex over two domain names; random structures up to "
                       "60 strands; single-fault damaged pair tables; object-level histories with components made beforehand, "
                       "split() twice, and any number of runs of split() on one object (generator advanced a bounded number "
                       "of times and abandoned, runs ending in SingletonError, ComplexS.ID assigned in between: "
                       "Model/SplitRuns.v); non-trivial = distinct results on which model and implementation agree")
    ctx.cov["exhaustive"] = False
    ctx.cov["partial"] = read_partial("C09") + [
        "object level with registries: ComplexS.split() on histories with pre-existing components is modelled "
        "(Model/Loops.v split_history) and corresponds on every run, but only the refutation of the naive clause "
        "'splitting twice yields identical objects in every history' is proved (split_twice_same_refuted: the first "
        "run can advance ComplexS.ID so that the next automatic name is the name of another live complex); the "
        "positive clauses (each yielded object owns its component's canonical form, SingletonError is the only "
        "exception) are not proved on the registry machine of C01/C04"]

    ctx.cov["refuted"] = [
        "split_twice_same_full (Proofs/SplitObj.v): 'in every history, if the first split() completes, the second "
        "yields the same objects' — refuted in the model (split_twice_same_refuted, vm_compute witness) and on the "
        "implementation: x = ComplexS([~a, a], '()', 'c3'); c = ComplexS([~a, a, '+', ~a, a, b], '()+...', 'c2'); "
        "list(c.split()) creates 'c1' (ComplexS.ID -> 2); the second list(c.split()) raises SingletonError because the "
        "automatic name 'c2' is c's own name although the component x exists"]

    def search(diffs):
        rng = ctx.rng
        cases = []
        for d in diffs[:4]:
            op, s = origin.get(enc(d[1][1]), (None, None))
            if s is None:
                continue
            seq0 = d[1][1][0] if op == "cx_split" else None

            def bad(s2, op=op):
                seq = gs.seq_for(random.Random(1), s2, names=("a", "b")) if op == "cx_split" else None
                return disagree_one(req_for(op, s2, seq=seq))
            if bad(s):
                s2 = shrink(s, bad, lc.shrink_struct, budget=80)
                cases.append({"s": s2, "seq": gs.seq_for(random.Random(1), s2, names=("a", "b"))})
            cases.append({"s": s, "seq": seq0 or gs.seq_for(rng, s, names=("a", "b"))})
        cases += [{"s": s, "seq": gs.seq_for(rng, s, names=("a", "b"))} for s in small if len(s) <= 8]
        cases += [{"s": s, "seq": gs.seq_for(rng, s, names=("a", "b"))} for s in big[:300]]
        out = run_oracle("c09.py", {"cases": cases})
        found = []
        hd = [d[1] for d in diffs if d[1][0] == "cx_split_hist"][:20] + [d[1] for d in diffs if d[1][0] == "cx_split_runs"][:20]
        for rq, r in zip(hd, run_impl([("cx_split_hist_check", q[1]) for q in hd]) if hd else []):
            if isinstance(r, Err) or r:
                found.append({"key": {"history": rq[1]}, "input": {"history": rq[1]}, "what": str(r),
                              "snippet": hist_snippet(rq[1])})
        for f in out["failures"][:10]:
            found.append({"key": {"s": f["s"]}, "input": {"s": f["s"], "seq": f["seq"]}, "what": f["what"],
                          "snippet": snippet(f["s"], f["seq"])})
        return found

    # the recorded finding is replayed on every run (prints KNOWN-FINDING while it still fails)
    w = run_impl([("c09_split_twice_witness", None)])[0]
    if isinstance(w, Err) or w[0] == "raised" or not w[1]:
        ctx.violation("counterexample", {
            "key": {"class": "split-twice-autoname-clash"}, "input": "c09_split_twice_witness",
            "what": f"second split() of a complex whose components are all live: {w!r}",
            "snippet": "from dsdobjects import *; a=DomainS('a',7); b=DomainS('b',7); ComplexS.ID=1; "
                       "x=ComplexS([~a,a],list('()'),'c3'); c=ComplexS([~a,a,'+',~a,a,b],list('()+...'),'c2'); "
                       "list(c.split()); list(c.split())"})
    conclude(ctx, res, runner, diffs, search)


def snippet(s, seq):
    return ("from dsdobjects.complex_utils import make_pair_table, make_strand_table, split_complex_pt, split_complex_db\n"
            "from dsdobjects.base_classes import DomainS, ComplexS\n"
            f"s = {s!r}\n"
            "stab = [[f'd{si}_{di}' for di in range(len(x))] for si, x in enumerate(s.split('+'))]\n"
            "for part in split_complex_pt(stab, make_pair_table(s)): print(part)\n"
            f"seq = {seq!r}\n"
            "print(list(split_complex_db(seq, list(s))))\n"
            "d = {}\n"
            "for n in seq:\n"
            "    if n != '+':\n"
            "        b = n.rstrip('*'); d[b] = DomainS(b, 7); d[b + '*'] = DomainS(b + '*', 7)\n"
            "c = ComplexS([d.get(n, n) for n in seq], list(s))\n"
            "a = list(c.split()); b = list(c.split())\n"
            "print([(list(map(str, x.sequence)), ''.join(x.structure)) for x in a], [x is y for x, y in zip(a, b)])\n")


def hist_snippet(h):
    """a history of cx_split_hist_check (harness/impl/loops.py) as a program against the public API"""
    pre, me = h[0], h[1]
    runs = [r[:2] for r in h[2]] if len(h) > 2 else []
    return ("# harness op cx_split_hist_check (harness/impl/loops.py); the same history by hand:\n"
            "from dsdobjects.base_classes import DomainS, ComplexS\n"
            f"pre, me, runs = {pre!r}, {me!r}, {runs!r}\n"
            "d, held = {}, []\n"
            "for n in [n for item in pre + [me] for n in item[0] if n != '+']:\n"
            "    b = n.rstrip('*'); L = 7 + len(b) % 3\n"
            "    if b not in d: d[b] = DomainS(b, L); d[b + '*'] = DomainS(b + '*', L)\n"
            "for seq, sst, nm in pre + [me]:\n"
            "    try: held.append(ComplexS([d.get(n, n) for n in seq], list(sst)) if nm is None else ComplexS([d.get(n, n) for n in seq], list(sst), nm))\n"
            "    except Exception as e: held.append(getattr(e, 'existing', None))\n"
            "c = held[-1]\n"
            "for lim, sid in runs + [[None, None]]:   # advance the generator at most lim times, then abandon it\n"
            "    if sid is not None: ComplexS.ID = sid\n"
            "    g, ys = c.split(), []\n"
            "    try:\n"
            "        while lim is None or len(ys) < lim: ys.append(next(g))\n"
            "    except StopIteration: print('complete run:', [x.kernel_string for x in ys])\n"
            "    except Exception as e: print('run ended by', type(e).__name__, 'after', [x.kernel_string for x in ys])\n"
            "    else: print('abandoned after', [x.kernel_string for x in ys])\n"
            "    g.close(); held += ys\n"
            "# every complete run must print one complex per connected component of `me`\n")


def replay(data):
    inp = data.get("input")
    if not inp:
        print("replay file names a broken proof/correspondence link only:", json.dumps(data.get("broken_links"))[:2000])
        return 1
    if isinstance(inp, dict) and "history" in inp:
        from common import run_impl, Err
        r = run_impl([("cx_split_hist_check", inp["history"])])[0]
        print(r)
        return 1 if (isinstance(r, Err) or r) else 0
    if inp == "c09_split_twice_witness":
        from common import run_impl
        print(run_impl([("c09_split_twice_witness", None)])[0])
        return 1
    out = run_oracle("c09.py", {"cases": [inp]})
    print(json.dumps(out))
    return 1 if out["failures"] else 0
