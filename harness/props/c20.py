"""C20 — the legacy API computes the same answers as the current one."""
import json
from common import prove, ensure_model_runner, run_impl, run_model, Err
from corr import correspond
from flow import conclude
import gen_structs as gs
import gen_pil


def canon(op, v):
    if op == "legacy_complex" and isinstance(v, list) and len(v) == 11 and isinstance(v[7], list) and len(v[7]) == 2:
        v = list(v)
        v[7] = [v[7][0], sorted(v[7][1])]
    return v


def history_disagreement(steps, r):
    """per step [legacy outcome, current outcome] with outcomes new k / dup k / err: they must agree, except that a request whose
    name belongs to ANOTHER live object is refused by the current API (SingletonError without `existing`) while the legacy model,
    which looks for duplicates first, reports the duplicate"""
    taken = {}
    for (seq, st, name), (l, c) in zip(steps, r):
        ok = l == c or (c[0] == "err" and l[0] == "dup" and name is not None and name in taken and taken[name] != l[1])
        if not ok:
            return {"step": [seq, st, name], "legacy": l, "current": c}
        if c[0] == "new" and name is not None:
            taken[name] = c[1]
    return None

def distance_disagreement(rq, r, cur):
    """what the rotation distances of the legacy model mean, stated on one answer of op legacy_distance for the request
    [A, B] (B a rotation of A) and the current API's [canonical form, turns] for A: rotating the canonical form `rotations`
    times (first strand to the end, the direction of rotate_once and of ComplexS.turns) gives the representation A; the
    current API's turns denotes the same representation; DSDDuplicationError.rotations turns A's representation into B"""
    sa, ta, sb, tb = rq
    if isinstance(r, Err):
        return f"legacy: {r!r}"
    cf, rot, size, outcome = r
    A, B = (list(sa), list(ta)), (list(sb), list(tb))
    n = len(gen_pil.rotations(sa, ta))
    if size != n or not isinstance(rot, int):
        return f"size {size!r} / rotations {rot!r} of a complex of {n} strands"
    at = lambda base, k: tuple(map(list, gen_pil.rotations(base[0], base[1])[k % n]))
    if at(cf, rot) != A:
        return f"DSD_Complex.rotations = {rot}, but {rot} turns of the canonical form {cf!r} give {at(cf, rot)!r}, not the representation"
    if cur is not None and not isinstance(cur, Err) and not any(isinstance(x, Err) for x in cur):
        ccf, turns = cur[0], cur[1]
        if [list(ccf[0]), list(ccf[1])] != [list(cf[0]), list(cf[1])]:
            return f"canonical form: legacy {cf!r}, current {ccf!r}"
        if at(cf, turns) != at(cf, rot):
            return f"DSD_Complex.rotations = {rot} and ComplexS.turns = {turns} denote different rotations of the canonical form"
    if outcome[0] != "duplicate":
        return f"the rotated request was not reported as a duplicate: {outcome!r}"
    if outcome[2] is not True:
        return "DSDDuplicationError.existing is not the registered complex"
    if not isinstance(outcome[1], int) or at(A, outcome[1]) != B:
        return (f"DSDDuplicationError.rotations = {outcome[1]!r}, but that many turns of the existing complex give "
                f"{at(A, outcome[1]) if isinstance(outcome[1], int) else None!r}, not the requested representation")
    return None


def distance_requests(rq):
    return [("legacy_distance", rq), ("c03_history", [rq[0], rq[1], [["canonical_form"], ["turns"]]])]


def run(ctx):
    rng, quick = ctx.rng, ctx.tier == "quick"
    res = prove(ctx)
    if ctx.gen.get("gen_iupac"):
        res["ok"] = False
        res["build"].excerpt = "translator failed (fail-closed): " + ctx.gen["gen_iupac"]
    runner = ensure_model_runner()
    diffs, found = [], []
    if runner.ok:
        structs = list(gs.all_wf(6 if quick else 8))
        if quick:
            structs = rng.sample(structs, min(len(structs), 700))
        structs += [gs.random_wf(rng, rng.choice([15, 50]), p_break=0.2) for _ in range(40 if quick else 800)]
        pop = [(gs.seq_for(rng, s, names=("a", "b")), list(s)) for s in structs]
        # identical strands / rotational symmetry: the structure has to break ties
        for k in (2, 3):
            pop.insert(0, (sum([["a", "+"] for _ in range(k)], [])[:-1] + ["+", "a", "a*"], list("+".join(["."] * k)) + list("+()")))
            pop.insert(0, (sum([["a", "a*", "+"] for _ in range(k)], [])[:-1], list("+".join(["()"] + [".."] * (k - 1)))))
        pop.insert(0, (["a", "+", "a*", "+", "a", "+", "a*"], list("(+)+.+.")))
        # strand order with a period 2 <= p < n (A B A B, A B C A B C), symmetric and asymmetric structures
        for unit, reps in ((["a", "b", "+", "b*", "+"], 2), (["a", "+", "b", "a*", "+"], 2), (["a", "+", "b", "+", "c", "+"], 2), (["a", "a*", "+", "b", "+"], 3)):
            sq = (unit * reps)[:-1]
            n_pos = [i for i, x in enumerate(sq) if x != "+"]
            for st in ("".join("+" if x == "+" else "." for x in sq),):
                pop.insert(0, (sq, list(st)))
                if len(n_pos) >= 2:
                    t = list(st); t[n_pos[0]] = "("; t[n_pos[-1]] = ")"
                    pop.insert(0, (sq, t))
        reqs, cur = [], []
        for sq, st in pop:
            rots = gen_pil.rotations(sq, st)
            for r in (rots if len(rots) <= 3 else rng.sample(rots, 3)):
                reqs.append(("legacy_complex", [r[0], r[1]]))
            r = rng.choice(rots)
            reqs.append(("legacy_dup", [sq, st, r[0], r[1]]))
            o = rng.choice(pop)
            reqs.append(("legacy_dup", [sq, st, o[0], o[1]]))
        # ill-formed input: the legacy rotation reports imbalance with its own error type
        for s in gs.all_strings("().+", 5):
            if "+" in s and not gs.is_wf(s):
                reqs.append(("legacy_complex", [["+" if c == "+" else "d" for c in s], list(s)]))
        for _ in range(300 if quick else 6000):
            L = rng.choice([0, 1, 3, 12, 40])
            rna = rng.random() < 0.5
            s = "".join(rng.choice("ACGTUNRYSWKMBDHVX") for _ in range(L))
            reqs.append((rng.choice(["legacy_wc_complement", "legacy_complement", "legacy_reverse_wc_complement",
                                     "legacy_reverse_complement"]), [s, rna]))
        diffs += correspond(ctx, "legacy", reqs, canon=canon)
        # the property itself: legacy vs current API on the same input
        both = []
        for sq, st in pop[: (300 if quick else 4000)]:
            both.append(("legacy_complex", [sq, st]))
            both.append(("c03_history", [sq, st, [["canonical_form"], ["size"], ["kernel_string"], ["pair_table"],
                                                  ["is_connected"], ["exterior_domains"], ["enclosed_domains"]]]))
            both.append(("legacy_split", [sq, st]))
            both.append(("split_complex_db", [sq, st]))
            both.append(("make_loop_index", None))       # placeholder keeps the stride at 5
        both = [b for b in both if b[1] is not None]
        out = run_impl(both)
        for k in range(0, len(out), 4):
            leg, curr, lsplit, csplit = out[k:k + 4]
            rq = both[k][1]
            what = None
            if isinstance(leg, Err) or isinstance(curr, Err):
                if isinstance(leg, Err) != isinstance(curr, Err):
                    what = f"legacy: {leg!r}, current: {curr!r}"
            else:
                pairs = [("canonical_form", leg[0], curr[0]), ("size", leg[4], curr[1]), ("kernel_string", leg[5], curr[2]),
                         ("pair_table", leg[6], curr[3]), ("is_connected", leg[8], curr[4]),
                         ("exterior_domains", leg[9], curr[5]), ("enclosed_domains", leg[10], curr[6])]
                for name, a, b in pairs:
                    if isinstance(a, Err) and isinstance(b, Err):
                        continue
                    if a != b:
                        what = f"{name}: legacy {a!r}, current {b!r}"
                        break
            if what is None and not (isinstance(lsplit, Err) and isinstance(csplit, Err)) and lsplit != csplit:
                what = f"split components: legacy {lsplit!r}, current {csplit!r}"
            if what:
                found.append({"key": {"seq": rq[0], "struct": "".join(rq[1])}, "input": rq, "what": what,
                              "snippet": f"from dsdobjects.core.deprecated import DSD_Complex; from dsdobjects import ComplexS  # on {rq!r}"})
        # duplicate detection against rotation equivalence (brute force), legacy IUPAC against the current functions
        dup = []
        for sq, st in pop[: (200 if quick else 3000)]:
            rots = gen_pil.rotations(sq, st)
            for r in rots[:4]:
                dup.append((("legacy_dup", [sq, st, r[0], r[1]]), True))
            o = rng.choice(pop)
            dup.append((("legacy_dup", [sq, st, o[0], o[1]]), gen_pil.canon(sq, st) == gen_pil.canon(*o)))
        for (rq, want), r in zip(dup, run_impl([d[0] for d in dup])):
            got = (not isinstance(r, Err)) and r[0] == "duplicate"
            if isinstance(r, Err) or got != want:
                found.append({"key": {"dup": rq[1]}, "input": rq[1], "what": f"legacy duplicate detection says {r!r}; rotation-equivalent: {want}",
                              "snippet": f"from dsdobjects.core.deprecated import DSD_Complex  # create {rq[1][:2]!r} then {rq[1][2:]!r}"})
        # rotation distances: every representation of a complex of several strands registered, then requested again in
        # another rotation; DSD_Complex.rotations / DSDDuplicationError.rotations must denote the turns that lead from the
        # canonical form to the representation / from the existing object to the request (as ComplexS.turns does)
        multi = [p for p in pop if p[0].count("+") >= 2]
        few = [p for p in pop if p[0].count("+") < 2]
        sel = multi[:20] + rng.sample(multi, min(len(multi), 80 if quick else 1500)) + rng.sample(few, min(len(few), 30 if quick else 300))
        dist = []
        for sq, st in sel:
            rots = gen_pil.rotations(sq, st)
            for k in (range(len(rots)) if len(rots) <= 4 else rng.sample(range(len(rots)), 4)):
                j = rng.randrange(len(rots))
                dist.append([rots[k][0], rots[k][1], rots[j][0], rots[j][1]])
        rd = run_impl(sum([distance_requests(rq) for rq in dist], []))
        nd = 0
        for i, rq in enumerate(dist):
            what = distance_disagreement(rq, rd[2 * i], rd[2 * i + 1])
            if what:
                nd += 1
                found.append({"key": {"distance": rq}, "input": {"distance": rq}, "what": what,
                              "snippet": ("import warnings; warnings.simplefilter('ignore')\n"
                                          "from dsdobjects.core.deprecated import DSD_Complex, DSDDuplicationError\n"
                                          f"a = DSD_Complex({rq[0]!r}, {rq[1]!r}, name='A'); print(a.canonical_form, a.rotations)\n"
                                          f"try: DSD_Complex({rq[2]!r}, {rq[3]!r}, name='B')\n"
                                          "except DSDDuplicationError as e: print(e.rotations)")})
        ctx.cov["correspondence"]["legacy-rotation-distances(impl)"] = {"cases": len(dist), "failures": nd}
        # histories of creation requests (explicit / automatic names, rotations, refused requests in between): the legacy
        # registry reports a duplicate exactly when the current API resolves the request to the existing object
        hist = []
        for _ in range(400 if quick else 8000):
            hp = []
            for _ in range(rng.randrange(1, 4)):
                sq, st = rng.choice(pop)
                hp += [(r[0], r[1]) for r in gen_pil.rotations(sq, st)]
            steps = []
            for _ in range(rng.randrange(2, 7)):
                sq, st = rng.choice(hp)
                steps.append([list(sq), list(st), rng.choice(["A", "B", "C", None, None])])
            hist.append(("legacy_history", steps))
        for rq, r in zip(hist, run_impl(hist)):
            bad = r if isinstance(r, Err) else history_disagreement(rq[1], r)
            if bad:
                found.append({"key": {"history": rq[1]}, "input": {"history": rq[1]},
                              "what": f"legacy and current object model disagree on a history of creation requests: {bad!r}",
                              "snippet": f"# harness op legacy_history {rq[1]!r} (harness/impl/legacy.py)"})
        ctx.cov["correspondence"]["legacy-histories(impl)"] = {"cases": len(hist)}
        iu = []
        for _ in range(200 if quick else 4000):
            rna = rng.random() < 0.5
            s = "".join(rng.choice("ACGUN" if rna else "ACGTN") for _ in range(rng.choice([1, 5, 30])))
            if rng.random() < 0.5:
                s = "".join(rng.choice("ACGURYSWKMBDHVN" if rna else "ACGTRYSWKMBDHVN") for _ in range(rng.choice([1, 5, 30])))
            for f in ("wc_complement", "complement", "reverse_wc_complement", "reverse_complement"):
                iu.append(("legacy_" + f, [s, rna]))
                iu.append((f, [s, rna]))
        riu = run_impl(iu)
        for k in range(0, len(riu), 2):
            a, b = riu[k], riu[k + 1]
            if not isinstance(a, Err) and not isinstance(b, Err) and a != b:
                found.append({"key": {"iupac": iu[k]}, "input": iu[k], "what": f"{iu[k][0]} = {a!r} but {iu[k + 1][0]} = {b!r}",
                              "snippet": f"from dsdobjects.core.deprecated import SequenceConstraint  # {iu[k]!r}"})
        ctx.cov["correspondence"]["legacy-vs-current(impl)"] = {"complexes": len(out) // 4, "failures": len(found)}
    ctx.cov["rule"] = ("complexes as for C02 (all well-formed structures up to the tier's bound over {a,b}, random larger ones) "
                       "presented to DSD_Complex in several rotations, duplicate requests (a rotation / another complex), "
                       "ill-formed structures, IUPAC sequences over all codes plus foreign letters for the legacy "
                       "SequenceConstraint; non-trivial = distinct agreed results")
    if found and res["ok"] and not diffs:
        for f in found[:10]:
            ctx.violation("counterexample", f)
        return
    conclude(ctx, res, runner, diffs, lambda d: found)


def replay(data):
    inp = data.get("input")
    if isinstance(inp, dict) and "history" in inp:
        r = run_impl([("legacy_history", inp["history"])])[0]
        print(r)
        return 1 if (isinstance(r, Err) or history_disagreement(inp["history"], r)) else 0
    if isinstance(inp, dict) and "distance" in inp:
        r = run_impl(distance_requests(inp["distance"]))
        print(r)
        what = distance_disagreement(inp["distance"], r[0], r[1])
        print(what)
        return 1 if what else 0
    if not inp:
        print(json.dumps(data.get("broken_links"))[:2000]); return 1
    print(run_impl([("legacy_complex", inp), ("c03_history", [inp[0], inp[1], [["canonical_form"], ["size"], ["kernel_string"]]])]))
    return 1
