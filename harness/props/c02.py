"""C02 — complex identity is invariant under strand rotation; canonical form is minimal."""
import json
from common import prove, ensure_model_runner, run_impl, Err
from corr import correspond
from flow import conclude
import gen_structs as gs
import gen_pil


def population(rng, quick):
    structs = list(gs.all_wf(6 if quick else 8))
    if quick:
        structs = rng.sample(structs, min(500, len(structs))) + [s for s in structs if s.count("+") >= 2][:200]
    pop = []
    for s in structs:
        for names in (("a",), ("a", "b")):
            pop.append((gs.seq_for(rng, s, names=names, complementary=rng.random() < 0.7), list(s)))
    # rotationally symmetric and identical-strand complexes on purpose
    for k in (2, 3, 4):
        pop.append((sum([["a", "a*", "+"] for _ in range(k)], [])[:-1], list("+".join([".."] * k))))
        pop.append((sum([["a", "b", "+"] for _ in range(k)], [])[:-1], list("+".join(["()"] * k))))
        pop.append((sum([["a", "+"] for _ in range(k)], [])[:-1], list("+".join(["."] * k))))
    # names whose concatenations collide ('a'+'ab' = 'aa'+'b'), whose string and numeric orders differ, and characters
    # around '*' in the code-point order; strands with identical content under structures that are not symmetric
    import loops_common as lc
    for s in rng.sample(structs, min(len(structs), 150 if quick else 1500)):
        pop.append((gs.seq_for(rng, s, names=("a", "aa", "ab", "b", "aab", "B", "a_", "a-"), complementary=rng.random() < 0.3), list(s)))
        pop.append((gs.seq_for(rng, s, names=("d1", "d10", "d2", "d9", "1", "10", "9")), list(s)))
        if s.count("+") >= 1:
            pop.append((lc.periodic_seq(s), list(s)))
            pop.append((lc.periodic_seq(s, unit=("a", "a", "a", "a", "a", "a")), list(s)))
    for k in (10, 11, 13):                     # more than nine strands
        s = "+".join(["(."] + [".."] * (k - 2) + [".)"])
        pop.append((gs.seq_for(rng, s, names=("a", "b")), list(s)))
        pop.append((lc.periodic_seq(s), list(s)))
    # distinct strands whose names concatenate to the same text, under structures that repeat per strand
    for sq_, st_ in ((["ab", "c", "+", "a", "bc"], "..+.."), (["ab", "c", "+", "a", "bc"], "((+))"), (["a", "bc", "+", "ab", "c"], "(.+.)"),
                     (["x", "yz", "+", "xy", "z", "+", "x", "yz"], "..+..+.."), (["x", "yz", "+", "xy", "z", "+", "x", "yz"], "(.+..+.)"),
                     (["ab", "c", "+", "a", "bc", "+", "ab", "c", "+", "a", "bc"], "..+..+..+.."),
                     (["a", "a*", "+", "aa", "*a"], "..+.."), (["d1", "0", "+", "d", "10"], "..+.."),
                     (["a", "b", "c", "+", "ab", "c", "+", "a", "bc"], "...+..+..")):
        pop.append((list(sq_), list(st_)))
    pop.append((["a", "+", "a*", "+", "a", "+", "a*"], list("(+)+(+)")))
    pop.append((["a", "+", "a*", "+", "a", "+", "a*"], list("(+(+)+)")))
    for _ in range(40 if quick else 600):
        s = gs.random_wf(rng, rng.choice([10, 30, 80]), p_break=rng.choice([0.1, 0.3]))
        pop.append((gs.seq_for(rng, s, names=("a", "b", "c")), list(s)))
    return pop


# ---- histories over several complexes side by side (direct statement on the implementation, op c02_history) ----------

SCRIBBLES = ("open", "unpair", "reverse", "clear", "rename")
NAMES = ("N0", "N1", "N2", "c1", "c2", "c3")


def history_pool(rng, quick):
    """pairwise inequivalent complexes that share a lot: the same dot-bracket under several labellings, and the same strands
    under another structure of the same shape (one pair opened / strands exchanged)"""
    if rng.random() < 0.85:
        s = rng.choice([x for x in gs.all_wf(6) if x.count("+") >= 1])
    else:
        s = gs.random_wf(rng, rng.choice([8, 14, 30]), p_break=0.25)
    alph = rng.choice([("a", "b"), ("a", "b", "c"), ("a",), ("ab", "c", "a", "bc")])
    cand = []
    for nm in (alph, ("c", "d"), ("e", "f", "g"), alph):
        cand.append((gs.seq_for(rng, s, names=nm, complementary=rng.random() < 0.6), list(s)))
    pp = gs.pair_positions(s)
    for sq, _ in list(cand[:2]):
        if pp:
            i, j = rng.choice(pp)
            t = list(s)
            t[i] = t[j] = "."
            cand.append((list(sq), t))
        cand.append((list(sq), ["." if x != "+" else "+" for x in s]))
    seen, pool = set(), []
    for sq, st in cand:
        c = gen_pil.canon(sq, st)
        if c not in seen:
            seen.add(c)
            pool.append([[list(a), list(b)] for a, b in gen_pil.rotations(sq, st)])
    rng.shuffle(pool)
    return pool[:rng.choice([2, 3, 4, 6])]


def history_steps(rng, pool, n):
    """requests with names that are free, taken (a NEW description refused because of its name; an automatic name that
    collides with a hand-given one), or the right one; callers that edit lists handed out by the library; turns; deaths"""
    steps, live = [], {}
    for _ in range(n):
        u = rng.random()
        c = rng.randrange(len(pool))
        if u < 0.62 or not live:
            taken = sorted(set(live.values()) - {None})
            v = rng.random()
            if c in live and live[c] is not None and v < 0.5:
                name = live[c]
            elif taken and v < 0.7:
                name = rng.choice(taken)
            elif v < 0.85:
                name = None
            else:
                name = rng.choice(NAMES)
            steps.append(["new", c, rng.randrange(len(pool[c])), name])
            if c not in live and (name is None or name not in live.values()):
                live[c] = name          # (approximation, only steers the generator; automatic names are not tracked)
        else:
            c = rng.choice(sorted(live))
            if u < 0.78:
                steps.append(["scribble", c, rng.choice(SCRIBBLES)])
            elif u < 0.88:
                steps.append(["turn", c, rng.choice([0, 1, 2, -1, len(pool[c]), rng.randrange(-9, 10)])])
            else:
                steps.append(["drop", c])
                live.pop(c)
    return steps


def history_expect(pool, steps):
    """what the property (and the registry discipline it presupposes) demands of every step: (kind, complex, representation)"""
    canons = [gen_pil.canon(*rots[0]) for rots in pool]
    orbit = [gen_pil.rotations(list(cn[0]), list(cn[1])) for cn in canons]
    live, ident, exp = {}, 1, []
    for st in steps:
        what, c = st[0], st[1]
        if what == "new":
            name = st[3] if st[3] is not None else f"c{ident}"
            by_name = next((j for j, o in live.items() if o["name"] == name), None)
            if c in live:
                kind = "object" if by_name == c else ("refused-existing" if by_name is None else "refused-none")
            elif by_name is None:
                kind = "created"
                live[c] = {"name": name, "rep": [list(x) for x in pool[c][st[2]]]}
                if st[3] is None:
                    ident += 1
            else:
                kind = "refused-none"
            exp.append((kind, None if kind == "refused-none" else c, dict(live[c]) if kind != "refused-none" else None))
        elif c not in live:
            exp.append(("absent", None, None))
        elif what == "scribble":
            exp.append(("scribbled", c, dict(live[c])))
        elif what == "turn":
            n = len(orbit[c])
            live[c]["rep"] = [list(x) for x in orbit[c][st[2] % n]]
            live[c]["turns"] = st[2] % n
            exp.append(("turned", c, dict(live[c])))
        elif what == "drop":
            live.pop(c)
            exp.append(("dropped", c, None))
    return canons, orbit, exp, live


def history_judge(pool, steps, res):
    if isinstance(res, Err):
        return f"the history raised {res.kind}"
    canons, orbit, exp, live = history_expect(pool, steps)
    out, pairs, final = res

    def check_obs(c, o, ob, where):
        key, turns, sq, st, name = ob
        if [list(canons[c][0]), list(canons[c][1])] != key:
            return f"{where}: canonical form {key} of complex {c} is not its minimal rotation {canons[c]}"
        if [sq, st] != o["rep"]:
            return f"{where}: complex {c} is represented as {[sq, st]}, expected {o['rep']}"
        if not isinstance(turns, int) or not 0 <= turns < len(orbit[c]) or [list(x) for x in orbit[c][turns]] != [sq, st] \
                or ("turns" in o and o["turns"] != turns):
            return f"{where}: turns = {turns} does not lead from the canonical form to the representation {[sq, st]}"
        if name != o["name"]:
            return f"{where}: complex {c} carries the name {name}, expected {o['name']}"
        return None

    for k, (st, r, e) in enumerate(zip(steps, out, exp)):
        where = f"step {k} {st}"
        if r[0] == "raised":
            return f"{where} raised {r[1]}"
        if r[0] != e[0] or r[1] != e[1]:
            return (f"{where} (a rotation of complex {st[1]}) led to {r[0]}" + (f" of complex {r[1]}" if isinstance(r[1], int) and r[1] >= 0 else
                    (" of a second object" if isinstance(r[1], int) else "")) + f", expected {e[0]}" + (f" of complex {e[1]}" if e[1] is not None else ""))
        if e[2] is not None:
            w = check_obs(e[1], e[2], r[2], where)
            if w:
                return w
    for ja, jb, eq, ne, heq in pairs:
        if eq or not ne or heq:
            return f"the inequivalent complexes {ja} and {jb} compare equal ({eq}), not unequal ({not ne}) or have one hash ({heq})"
    if sorted(j for j, _ in final) != sorted(live):
        return f"objects alive at the end: {sorted(j for j, _ in final)}, expected {sorted(live)}"
    for j, ob in final:
        w = check_obs(j, live[j], ob, "at the end")
        if w:
            return w
    return None


def history_snippet(pool, steps, use_sub):
    L = ["import gc", "from dsdobjects import SingletonError, clear_singletons",
         "from dsdobjects.base_classes import ComplexS, DomainS", "from dsdobjects.complex_utils import rotate_complex_once",
         "class K(ComplexS): pass" if use_sub else "K = ComplexS", "clear_singletons(K); clear_singletons(DomainS)",
         "def doms(seq):", "    out = []", "    for x in seq:", "        try: out.append('+' if x == '+' else DomainS(x, 5))",
         "        except SingletonError: out.append(DomainS(x))", "    return out",
         "def ask(seq, sst, name):", "    try: return 'object', (K(doms(seq), list(sst), name = name) if name else K(doms(seq), list(sst)))",
         "    except SingletonError as e: return 'refused', e.existing", "obj = {}"]
    canons, orbit, exp, _ = history_expect(pool, steps)
    for k, (st, e) in enumerate(zip(steps, exp)):
        what, c = st[0], st[1]
        if what == "new":
            sq, ss = pool[c][st[2]]
            L.append(f"kind, x = ask({sq!r}, {''.join(ss)!r}, {st[3]!r})   # step {k}: expected {e[0]}" + (f" of complex {e[1]}" if e[1] is not None else ""))
            if e[0] == "created":
                L.append(f"obj[{c}] = x")
            if e[1] is not None:
                L.append(f"assert x is obj[{c}] and x.canonical_form == {canons[c]!r}, (kind, x, getattr(x, 'canonical_form', None))")
            else:
                L.append("assert kind == 'refused' and x is None, (kind, x)")
        elif e[0] == "absent":
            continue
        elif what == "scribble":
            L.append(f"for s, t in list(obj[{c}].rotate()) + [rotate_complex_once(list(obj[{c}].sequence), list(obj[{c}].structure))]:   # step {k}: the caller edits ({st[2]}) lists it was given")
            L.append({"open": "    t[:] = ['+' if x == '+' else '.' for x in t]", "clear": "    del s[:], t[:]",
                      "reverse": "    s.reverse(); t[:] = [{'(': ')', ')': '('}.get(x, x) for x in reversed(t)]",
                      "rename": "    s[:] = ['+' if x == '+' else 'zz' for x in s]",
                      "unpair": "    i = t.index('(') if '(' in t else None\n    if i is not None:\n        d = 0\n        for j in range(i, len(t)):\n            d += {'(': 1, ')': -1}.get(t[j], 0)\n            if d == 0: t[i] = t[j] = '.'; break"}[st[2]])
        elif what == "turn":
            L.append(f"obj[{c}].turns = {st[2]}   # step {k}")
        if what in ("scribble", "turn"):
            L.append(f"assert [list(map(str, obj[{c}].sequence)), list(obj[{c}].structure)] == {e[2]['rep']!r} and obj[{c}].canonical_form == {canons[c]!r}")
        elif what == "drop":
            L.append(f"del obj[{c}]; x = None; gc.collect()   # step {k}")
    L.append("assert all(a is b or (a != b and hash(a) != hash(b)) for a in obj.values() for b in obj.values())")
    return "\n".join(L)


def run_isolated(reqs):
    """every request in a process of its own (nothing an earlier candidate left behind may decide about the next one)"""
    import concurrent.futures as cf
    if not reqs:
        return []
    with cf.ThreadPoolExecutor(8) as ex:
        return list(ex.map(lambda rq: run_impl([rq], jobs=1)[0], reqs))


def history_search(ctx, rng, quick):
    """returns (failing inputs, number of histories, number of steps)"""
    reqs = []
    for _ in range(160 if quick else 2000):
        pool = history_pool(rng, quick)
        reqs.append(("c02_history", [pool, history_steps(rng, pool, rng.choice([5, 8, 12, 16])), rng.random() < 0.25]))
    fails = [(rq, w) for rq, w in ((rq, history_judge(rq[1][0], rq[1][1], r)) for rq, r in zip(reqs, run_impl(reqs))) if w]
    found, leaked = [], []
    for rq, what in fails[:12]:
        pool, steps, use_sub = rq[1]
        # the history on its own, in a fresh process; then without the steps that are not needed
        alone = history_judge(pool, steps, run_impl([rq], jobs=1)[0])
        if not alone:
            leaked.append((rq, what))
            continue
        what = alone
        while True:
            cands = [steps[:i] + steps[i + 1:] for i in range(len(steps))]
            rs = run_isolated([("c02_history", [pool, c, use_sub]) for c in cands])
            nxt = next(((c, w) for c, w in ((c, history_judge(pool, c, r_)) for c, r_ in zip(cands, rs)) if w), None)
            if nxt is None:
                break
            steps, what = nxt
        if True:
            found.append({"key": {"history": [pool, steps, use_sub]}, "input": ["history", pool, steps, use_sub], "what": what,
                          "snippet": history_snippet(pool, steps, use_sub)})
        if len(found) >= 3:
            break
    if not found:
        for rq, what in (leaked or fails)[:1]:
            pool, steps, use_sub = rq[1]
            found.append({"key": {"history": [pool, steps, use_sub]}, "input": ["history", pool, steps, use_sub],
                          "what": what + " (only after other histories in the same process: something survives between independent histories)",
                          "snippet": history_snippet(pool, steps, use_sub)})
    return found, len(reqs), sum(len(rq[1][1]) for rq in reqs)


def run(ctx):
    rng, quick = ctx.rng, ctx.tier == "quick"
    res = prove(ctx)
    runner = ensure_model_runner()
    diffs, found = [], []
    if runner.ok:
        pop = population(rng, quick)
        reqs, orbit_reqs, meta = [], [], []
        for seq, st in pop:
            rots = gen_pil.rotations(seq, st)
            want = gen_pil.canon(seq, st)
            for r in rots:
                reqs.append(("c02_identifiers", [r[0], r[1]]))
            n = len(rots)
            order = list(range(n))
            rng.shuffle(order)
            order = order + [rng.randrange(n) for _ in range(2)]
            first = rng.choice([None, "same"])
            mode = [first] + [rng.choice([None, "same" if first else None, "other"]) for _ in order[1:]]
            orbit_reqs.append(("c02_orbit", [[[r[0], r[1]] for r in rots], order, mode]))
            meta.append((want, first))
            if rng.random() < 0.5:
                # the same presentations to a subclass registry while a base-class object of the complex is alive
                orbit_reqs.append(("c02_orbit", [[[r[0], r[1]] for r in rots], order, mode, True]))
                meta.append((want, first))
        diffs += correspond(ctx, "identifiers", reqs)
        # the property itself on the implementation
        for rq, (want, first), r in zip(orbit_reqs, meta, run_impl(orbit_reqs)):
            what = None
            if isinstance(r, Err):
                what = f"presenting the rotations raised {r.kind}"
            else:
                for k, (kind, same, key, heq, eq, turns, name) in enumerate(r):
                    m = rq[1][2][k]
                    if kind == "refused-none" or same is False:
                        what = f"presentation {k} (rotation {rq[1][1][k]}, name mode {m}) led to {kind}, same object: {same}"
                    elif [list(want[0]), list(want[1])] != key:
                        what = f"canonical form {key} is not the minimal rotation {want}"
                    elif not (heq and eq):
                        what = "rotation-equivalent descriptions differ in hash or =="
                    elif k > 0 and kind == "object" and m != "same":
                        what = f"presentation {k} with name mode {m} returned an object instead of refusing"
                    if what:
                        break
            if what:
                found.append({"key": {"rots": rq[1][0][0], "order": rq[1][1], "mode": rq[1][2]}, "input": rq[1], "what": what,
                              "snippet": f"# harness op c02_orbit {rq[1]!r} (harness/impl/views.py)"})
        # inequivalent complexes over the same strands never coincide
        dist = []
        for _ in range(150 if quick else 3000):
            a, b = rng.choice(pop), rng.choice(pop)
            if gen_pil.canon(*a) != gen_pil.canon(*b):
                dist.append(("c02_distinct", [[a[0], a[1]], [b[0], b[1]]]))
        for rq, r in zip(dist, run_impl(dist)):
            if isinstance(r, Err) or r[0] == "refused" or r[0] or r[1] or r[3] == r[4]:
                found.append({"key": {"pair": rq[1]}, "input": rq[1], "what": f"inequivalent complexes are identified: {r!r}",
                              "snippet": f"# harness op c02_distinct {rq[1]!r}"})
        # several complexes side by side: refused requests, callers editing what they were handed, turns, deaths
        hfound, nh, ns = history_search(ctx, rng, quick)
        found += hfound
        ctx.cov["correspondence"]["orbits(impl)"] = {"complexes": len(pop), "presentations": sum(len(o[1][1]) for o in orbit_reqs),
                                                     "distinct_pairs": len(dist), "histories": nh, "history_steps": ns,
                                                     "failures": len(found)}
    ctx.cov["rule"] = ("every well-formed structure up to the tier's bound over the domain alphabets {a} and {a,b} (identical "
                       "strands, rotational symmetry), hand-made symmetric complexes, random large ones; each in every rotation "
                       "(canonical form and turns compared with the model), and presented to the library in a random order of "
                       "rotations with named / unnamed / differently named requests; non-trivial = distinct agreed results")
    if found and res["ok"] and not diffs:
        for f in found[:10]:
            ctx.violation("counterexample", f)
        return
    conclude(ctx, res, runner, diffs, lambda d: found)


def replay(data):
    inp = data.get("input")
    if not inp:
        print(json.dumps(data.get("broken_links"))[:2000]); return 1
    if inp[0] == "history":
        r = run_impl([("c02_history", inp[1:])], jobs=1)[0]
        print(r)
        print(history_judge(inp[1], inp[2], r))
        return 1
    op = "c02_orbit" if len(inp) >= 3 else "c02_distinct"
    print(run_impl([(op, inp)])[0])
    return 1
