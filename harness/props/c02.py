"""C02 — complex identity is invariant under strand rotation; canonical form is minimal."""
import json
from common import prove, ensure_model_runner, run_impl, Err
from corr import correspond
from flow import conclude
import gen_structs as gs
import gen_pil


def population(rng, quick):
    structs = list(gs.all_wf(6 if quick else 8))
    if quick:
        structs = rng.sample(structs, min(500, len(structs))) + [s for s in structs if s.count("+") >= 2][:200]
    pop = []
    for s in structs:
        for names in (("a",), ("a", "b")):
            pop.append((gs.seq_for(rng, s, names=names, complementary=rng.random() < 0.7), list(s)))
    # rotationally symmetric and identical-strand complexes on purpose
    for k in (2, 3, 4):
        pop.append((sum([["a", "a*", "+"] for _ in range(k)], [])[:-1], list("+".join([".."] * k))))
        pop.append((sum([["a", "b", "+"] for _ in range(k)], [])[:-1], list("+".join(["()"] * k))))
        pop.append((sum([["a", "+"] for _ in range(k)], [])[:-1], list("+".join(["."] * k))))
    # names whose concatenations collide ('a'+'ab' = 'aa'+'b'), whose string and numeric orders differ, and characters
    # around '*' in the code-point order; strands with identical content under structures that are not symmetric
    import loops_common as lc
    for s in rng.sample(structs, min(len(structs), 150 if quick else 1500)):
        pop.append((gs.seq_for(rng, s, names=("a", "aa", "ab", "b", "aab", "B", "a_", "a-"), complementary=rng.random() < 0.3), list(s)))
        pop.append((gs.seq_for(rng, s, names=("d1", "d10", "d2", "d9", "1", "10", "9")), list(s)))
        if s.count("+") >= 1:
            pop.append((lc.periodic_seq(s), list(s)))
            pop.append((lc.periodic_seq(s, unit=("a", "a", "a", "a", "a", "a")), list(s)))
    for k in (10, 11, 13):                     # more than nine strands
        s = "+".join(["(."] + [".."] * (k - 2) + [".)"])
        pop.append((gs.seq_for(rng, s, names=("a", "b")), list(s)))
        pop.append((lc.periodic_seq(s), list(s)))
    # distinct strands whose names concatenate to the same text, under structures that repeat per strand
    for sq_, st_ in ((["ab", "c", "+", "a", "bc"], "..+.."), (["ab", "c", "+", "a", "bc"], "((+))"), (["a", "bc", "+", "ab", "c"], "(.+.)"),
                     (["x", "yz", "+", "xy", "z", "+", "x", "yz"], "..+..+.."), (["x", "yz", "+", "xy", "z", "+", "x", "yz"], "(.+..+.)"),
                     (["ab", "c", "+", "a", "bc", "+", "ab", "c", "+", "a", "bc"], "..+..+..+.."),
                     (["a", "a*", "+", "aa", "*a"], "..+.."), (["d1", "0", "+", "d", "10"], "..+.."),
                     (["a", "b", "c", "+", "ab", "c", "+", "a", "bc"], "...+..+..")):
        pop.append((list(sq_), list(st_)))
    pop.append((["a", "+", "a*", "+", "a", "+", "a*"], list("(+)+(+)")))
    pop.append((["a", "+", "a*", "+", "a", "+", "a*"], list("(+(+)+)")))
    for _ in range(40 if quick else 600):
        s = gs.random_wf(rng, rng.choice([10, 30, 80]), p_break=rng.choice([0.1, 0.3]))
        pop.append((gs.seq_for(rng, s, names=("a", "b", "c")), list(s)))
    return pop


def run(ctx):
    rng, quick = ctx.rng, ctx.tier == "quick"
    res = prove(ctx)
    runner = ensure_model_runner()
    diffs, found = [], []
    if runner.ok:
        pop = population(rng, quick)
        reqs, orbit_reqs, meta = [], [], []
        for seq, st in pop:
            rots = gen_pil.rotations(seq, st)
            want = gen_pil.canon(seq, st)
            for r in rots:
                reqs.append(("c02_identifiers", [r[0], r[1]]))
            n = len(rots)
            order = list(range(n))
            rng.shuffle(order)
            order = order + [rng.randrange(n) for _ in range(2)]
            first = rng.choice([None, "same"])
            mode = [first] + [rng.choice([None, "same" if first else None, "other"]) for _ in order[1:]]
            orbit_reqs.append(("c02_orbit", [[[r[0], r[1]] for r in rots], order, mode]))
            meta.append((want, first))
            if rng.random() < 0.5:
                # the same presentations to a subclass registry while a base-class object of the complex is alive
                orbit_reqs.append(("c02_orbit", [[[r[0], r[1]] for r in rots], order, mode, True]))
                meta.append((want, first))
        diffs += correspond(ctx, "identifiers", reqs)
        # the property itself on the implementation
        for rq, (want, first), r in zip(orbit_reqs, meta, run_impl(orbit_reqs)):
            what = None
            if isinstance(r, Err):
                what = f"presenting the rotations raised {r.kind}"
            else:
                for k, (kind, same, key, heq, eq, turns, name) in enumerate(r):
                    m = rq[1][2][k]
                    if kind == "refused-none" or same is False:
                        what = f"presentation {k} (rotation {rq[1][1][k]}, name mode {m}) led to {kind}, same object: {same}"
                    elif [list(want[0]), list(want[1])] != key:
                        what = f"canonical form {key} is not the minimal rotation {want}"
                    elif not (heq and eq):
                        what = "rotation-equivalent descriptions differ in hash or =="
                    elif k > 0 and kind == "object" and m != "same":
                        what = f"presentation {k} with name mode {m} returned an object instead of refusing"
                    if what:
                        break
            if what:
                found.append({"key": {"rots": rq[1][0][0], "order": rq[1][1], "mode": rq[1][2]}, "input": rq[1], "what": what,
                              "snippet": f"# harness op c02_orbit {rq[1]!r} (harness/impl/views.py)"})
        # inequivalent complexes over the same strands never coincide
        dist = []
        for _ in range(150 if quick else 3000):
            a, b = rng.choice(pop), rng.choice(pop)
            if gen_pil.canon(*a) != gen_pil.canon(*b):
                dist.append(("c02_distinct", [[a[0], a[1]], [b[0], b[1]]]))
        for rq, r in zip(dist, run_impl(dist)):
            if isinstance(r, Err) or r[0] == "refused" or r[0] or r[1] or r[3] == r[4]:
                found.append({"key": {"pair": rq[1]}, "input": rq[1], "what": f"inequivalent complexes are identified: {r!r}",
                              "snippet": f"# harness op c02_distinct {rq[1]!r}"})
        ctx.cov["correspondence"]["orbits(impl)"] = {"complexes": len(pop), "presentations": sum(len(o[1][1]) for o in orbit_reqs),
                                                     "distinct_pairs": len(dist), "failures": len(found)}
    ctx.cov["rule"] = ("every well-formed structure up to the tier's bound over the domain alphabets {a} and {a,b} (identical "
                       "strands, rotational symmetry), hand-made symmetric complexes, random large ones; each in every rotation "
                       "(canonical form and turns compared with the model), and presented to the library in a random order of "
                       "rotations with named / unnamed / differently named requests; non-trivial = distinct agreed results")
    if found and res["ok"] and not diffs:
        for f in found[:10]:
            ctx.violation("counterexample", f)
        return
    conclude(ctx, res, runner, diffs, lambda d: found)


def replay(data):
    inp = data.get("input")
    if not inp:
        print(json.dumps(data.get("broken_links"))[:2000]); return 1
    op = "c02_orbit" if len(inp) >= 3 else "c02_distinct"
    print(run_impl([(op, inp)])[0])
    return 1
