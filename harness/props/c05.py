"""C05 — object lifetime: no hidden references, no loss while referenced."""
import reghist as rh
from reghist import D, C, S, M, R

PARTIAL = [
    'reading PIL text (read_pil) and the release of a whole reader result after one gc pass are not part of the histories yet',
    'the theorems are about the abstract heap graph of the model; that CPython frees at reference count zero, that WeakValueDictionary callbacks fire and that no C-level or traceback reference survives is observed (weakref liveness after every step, gc disabled), not proved',
    'holding a caught error across later operations is exercised by the direct oracle only (the model has no exception roots)',
    "release followed by redefinition as one statement about operations is proved for domains whose name has an unstarred, non-empty base (C05_release_redefine); the unguarded statement is refuted (C05_release_redefine_refuted_for_double_star: a=DomainS('a',5); x=DomainS('a**',5); del x; DomainS('a**',7) is refused, replayed on the implementation); for the other four classes: C05_release + C05_redefine_after_release + Example ex_release",
]


def batches(ctx):
    rng, quick = ctx.rng, ctx.tier == "quick"
    depth = 4 if quick else 5
    # containers: domain -> complex -> macrostate -> reaction, drops in every order, redefinition after drop
    a = [rh.dom(0, D, "a", 5), rh.dom(0, D, "a", 9), rh.dom(0, D, "a"),
         rh.cplx(1, C, [0, "+", 0], ".+.", "A"), rh.cplx(1, C, [0], ".", "A"), rh.cplx(1, C, None, None, "A"),
         rh.strand(1, S, [0, 0], "A"),
         rh.macro(2, M, [1]), rh.macro(2, M, None, "A"),
         rh.rxn(3, R, [1], [1], "open"), rh.rxn(3, R, [2], [2], "condensed"),
         rh.drop(0), rh.drop(1), rh.drop(2), rh.drop(3),
         rh.query(1, "size"), rh.turns(1, 1), rh.inv(0, 0)]
    small = [o for o in a if o[0] not in ("query", "turns", "inv", "strand") and o != rh.dom(0, D, "a")]
    # 13 letters at depth 4 (quick) / 5 (thorough); the thorough tier adds all 18 letters at depth 4
    out = [(f"containers/exhaustive-depth-{depth}", rh.all_histories(small, depth), 4, [D, C, S, M, R])]
    if not quick:
        out.append(("containers/18-letters-depth-4", rh.all_histories(a, 4), 4, [D, C, S, M, R]))
    # split(): components created, found, refused (automatic name taken), dropped in every order
    setup = [rh.dom(0, D, "a", 7), rh.dom(1, D, "b", 7), rh.inv(2, 0)]
    a = [rh.cplx(3, C, [2, 0, "+", 2, 0, 1], "()+...", n) for n in (None, "c2", "X")]
    a += [rh.cplx(4, C, [2, 0], "()", n) for n in (None, "c1", "c3")]
    a += [rh.cplx(4, C, [2, 0, 1], "...", None), rh.cplx(4, C, [0, 1, "+", 2], "(.+)", None)]
    a += [rh.split(5, 3), rh.split(5, 4), rh.split(3, 3), rh.drop(3), rh.drop(4), rh.drop(5), rh.drop(6), rh.turns(3, 1)]
    hs = [setup + h for h in rh.all_histories(a, 3 if quick else 4)]
    out.append(("split/exhaustive-depth-%d" % (3 if quick else 4), hs, 7, [C, D], len(setup)))
    n, ln = (300, 40) if quick else (5000, 100)
    out.append(("all-classes/random", [rh.random_history(rng, ln) for _ in range(n)], rh.NSLOTS, rh.ALL))
    # drop-heavy random histories
    hs = []
    for _ in range(n):
        h = rh.random_history(rng, ln)
        h = [op if rng.random() > 0.25 else rh.drop(rng.randrange(rh.NSLOTS)) for op in h]
        hs.append(h)
    out.append(("all-classes/random-drop-heavy", hs, rh.NSLOTS, rh.ALL))
    return out


RULE = ("every history of depth 4 (quick) / 5 (thorough) over 13 letters (thorough also: depth 4 over 18 letters) building the containment chain domain -> "
        "complex/strand -> macrostate -> reaction on four slots with drops in every order, redefinitions with other "
        "parameters, look-ups, a query, turns and ~; random and drop-heavy random histories over all 25 classes; after every "
        "step the weakref liveness of every object ever handed out is compared with the model's liveness flags "
        "(gc disabled: release must be immediate), together with both registries; distinct = distinct final observable states")


def reader_release(ctx):
    """whole read_pil results are released after at most one garbage-collection pass, and the names can
    be redefined afterwards (runtime behaviour: observed on the implementation)"""
    import gen_pil
    from common import run_impl, Err
    rng = ctx.rng
    docs = []
    for _ in range(30 if ctx.tier == "quick" else 400):
        S = gen_pil.make_system(rng, p_strand_notation=0.3, p_composite=0.6)
        docs.append(gen_pil.render(S, rng, layout=True, order=gen_pil.shuffled_order(S, rng)))
    res = run_impl([("read_pil_release", [t]) for t in docs])
    bad = 0
    for t, r in zip(docs, res):
        if isinstance(r, Err) or r[2] or any(r[3]):
            bad += 1
            ctx.violation("counterexample", {"key": {"release": t}, "input": t,
                                             "what": f"objects of a read_pil result survive one gc pass after the dictionary was dropped: {r!r}",
                                             "snippet": "import gc, weakref; from dsdobjects.objectio import *; set_io_objects(); out = read_pil("
                                                        + repr(t) + "); refs=[weakref.ref(o) for o in out['complexes'].values()]; del out; gc.collect(); print([r() for r in refs])"})
    ctx.cov["correspondence"]["read_pil_release(impl)"] = {"documents": len(docs), "not_released": bad,
                                                           "objects": sum(r[0] for r in res if not isinstance(r, Err))}


def containers_while_rotating(ctx):
    """macrostates / reactions keep their identity while member complexes are rotated (direct statement on the implementation)"""
    import gen_structs as gs, gen_pil
    from common import run_impl, Err
    rng = ctx.rng
    reqs = []
    structs = [s for s in gs.all_wf(5) if "+" in s]
    for _ in range(150 if ctx.tier == "quick" else 3000):
        specs, seen = [], set()
        while len(specs) < rng.randrange(2, 4):
            s = rng.choice(structs)
            sq = gs.seq_for(rng, s, names=("a", "b"))
            key = gen_pil.canon(sq, list(s))
            if key not in seen:
                seen.add(key)
                specs.append([sq, list(s), 0])
        reqs.append(("c05_macro_after_turns", [specs, [[rng.randrange(3), rng.randrange(-2, 5)] for _ in range(rng.randrange(1, 4))], rng.randrange(2)]))
    bad = 0
    for rq, r in zip(reqs, run_impl(reqs)):
        if isinstance(r, Err) or r:
            bad += 1
            ctx.violation("counterexample", {"key": {"macro_after_turns": rq[1]}, "input": {"macro_after_turns": rq[1]}, "what": str(r),
                                             "snippet": f"# harness op c05_macro_after_turns {rq[1]!r} (harness/impl/compare.py)"})
    ctx.cov["correspondence"]["containers-while-rotating(impl)"] = {"cases": len(reqs), "failures": bad}


def run(ctx):
    reader_release(ctx)
    containers_while_rotating(ctx)
    # sessions of the reader: configured classes, results held across clear_io_objects (stated on the implementation)
    from common import run_oracle as _ro
    _x = _ro("c15_extra.py", {"seed": ctx.seed, "n": 25 if ctx.tier == "quick" else 300})
    for f in _x["failures"]:
        ctx.violation("counterexample", {"key": {"extra": f["steps"]}, "input": f["steps"], "what": "; ".join(f["what"]),
                                         "snippet": "# harness/oracles/c15_extra.py, steps: " + repr(f["steps"])})
    rh.run_check(ctx, "C05", batches, RULE, partial=PARTIAL)


def replay(data):
    inp = data.get("input")
    if isinstance(inp, dict) and "macro_after_turns" in inp:
        from common import run_impl, Err
        r = run_impl([("c05_macro_after_turns", inp["macro_after_turns"])])[0]
        print(r)
        return 1 if (isinstance(r, Err) or r) else 0
    if isinstance(inp, list) and inp and isinstance(inp[0], str):
        print("steps of harness/oracles/c15_extra.py:", inp)
        return 1
    return rh.replay("C05", data)
