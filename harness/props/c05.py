"""C05 — object lifetime: no hidden references, no loss while referenced."""
import reghist as rh
from reghist import D, C, S, M, R

PARTIAL = [
    'reading PIL text (read_pil) and the release of a whole reader result after one gc pass are not part of the histories yet',
    'the theorems are about the abstract heap graph of the model; that CPython frees at reference count zero, that WeakValueDictionary callbacks fire and that no C-level or traceback reference survives is observed (weakref liveness after every step, gc disabled), not proved',
    'holding a caught error across later operations is exercised by the direct oracle only (the model has no exception roots)',
    "release followed by redefinition as one statement about operations is proved for domains whose name has an unstarred, non-empty base (C05_release_redefine); the unguarded statement is refuted (C05_release_redefine_refuted_for_double_star: a=DomainS('a',5); x=DomainS('a**',5); del x; DomainS('a**',7) is refused, replayed on the implementation); for the other four classes: C05_release + C05_redefine_after_release + Example ex_release",
]


def batches(ctx):
    rng, quick = ctx.rng, ctx.tier == "quick"
    depth = 4 if quick else 5
    # containers: domain -> complex -> macrostate -> reaction, drops in every order, redefinition after drop
    a = [rh.dom(0, D, "a", 5), rh.dom(0, D, "a", 9), rh.dom(0, D, "a"),
         rh.cplx(1, C, [0, "+", 0], ".+.", "A"), rh.cplx(1, C, [0], ".", "A"), rh.cplx(1, C, None, None, "A"),
         rh.strand(1, S, [0, 0], "A"),
         rh.macro(2, M, [1]), rh.macro(2, M, None, "A"),
         rh.rxn(3, R, [1], [1], "open"), rh.rxn(3, R, [2], [2], "condensed"),
         rh.drop(0), rh.drop(1), rh.drop(2), rh.drop(3),
         rh.query(1, "size"), rh.turns(1, 1), rh.inv(0, 0)]
    small = [o for o in a if o[0] not in ("query", "turns", "inv", "strand") and o != rh.dom(0, D, "a")]
    # 13 letters at depth 4 (quick) / 5 (thorough); the thorough tier adds all 18 letters at depth 4
    out = [(f"containers/exhaustive-depth-{depth}", rh.all_histories(small, depth), 4, [D, C, S, M, R])]
    if not quick:
        out.append(("containers/18-letters-depth-4", rh.all_histories(a, 4), 4, [D, C, S, M, R]))
    # split(): components created, found, refused (automatic name taken), dropped in every order
    setup = [rh.dom(0, D, "a", 7), rh.dom(1, D, "b", 7), rh.inv(2, 0)]
    a = [rh.cplx(3, C, [2, 0, "+", 2, 0, 1], "()+...", n) for n in (None, "c2", "X")]
    a += [rh.cplx(4, C, [2, 0], "()", n) for n in (None, "c1", "c3")]
    a += [rh.cplx(4, C, [2, 0, 1], "...", None), rh.cplx(4, C, [0, 1, "+", 2], "(.+)", None)]
    a += [rh.split(5, 3), rh.split(5, 4), rh.split(3, 3), rh.drop(3), rh.drop(4), rh.drop(5), rh.drop(6), rh.turns(3, 1)]
    hs = [setup + h for h in rh.all_histories(a, 3 if quick else 4)]
    out.append(("split/exhaustive-depth-%d" % (3 if quick else 4), hs, 7, [C, D], len(setup)))
    n, ln = (300, 40) if quick else (5000, 100)
    out.append(("all-classes/random", [rh.random_history(rng, ln) for _ in range(n)], rh.NSLOTS, rh.ALL))
    # drop-heavy random histories
    hs = []
    for _ in range(n):
        h = rh.random_history(rng, ln)
        h = [op if rng.random() > 0.25 else rh.drop(rng.randrange(rh.NSLOTS)) for op in h]
        hs.append(h)
    out.append(("all-classes/random-drop-heavy", hs, rh.NSLOTS, rh.ALL))
    return out


RULE = ("every history of depth 4 (quick) / 5 (thorough) over 13 letters (thorough also: depth 4 over 18 letters) building the containment chain domain -> "
        "complex/strand -> macrostate -> reaction on four slots with drops in every order, redefinitions with other "
        "parameters, look-ups, a query, turns and ~; random and drop-heavy random histories over all 25 classes; after every "
        "step the weakref liveness of every object ever handed out is compared with the model's liveness flags "
        "(gc disabled: release must be immediate), together with both registries; distinct = distinct final observable states; "
        "stated on the implementation: every public property, setter, method and special method of the five classes (found with "
        "dir()), with arguments in and out of range and caught errors, on connected and disconnected complexes, strands, "
        "macrostates and reactions, then all references (or all but a few) dropped: only what the kept objects contain survives, "
        "the registries hold nothing else and the released names are redefinable; the member lists handed to macrostates and "
        "reactions are the caller's own and are cleared, popped, appended to, overwritten, reversed (or are tuples) after the "
        "construction, with only the containers kept: the containers report and keep alive exactly the members they were built from")


def reader_release(ctx):
    """whole read_pil results are released after at most one garbage-collection pass, and the names can
    be redefined afterwards (runtime behaviour: observed on the implementation)"""
    import gen_pil
    from common import run_impl, Err
    rng = ctx.rng
    docs = []
    for _ in range(30 if ctx.tier == "quick" else 400):
        S = gen_pil.make_system(rng, p_strand_notation=0.3, p_composite=0.6)
        docs.append(gen_pil.render(S, rng, layout=True, order=gen_pil.shuffled_order(S, rng)))
    res = run_impl([("read_pil_release", [t]) for t in docs])
    bad = 0
    for t, r in zip(docs, res):
        if isinstance(r, Err) or r[2] or any(r[3]):
            bad += 1
            ctx.violation("counterexample", {"key": {"release": t}, "input": t,
                                             "what": f"objects of a read_pil result survive one gc pass after the dictionary was dropped: {r!r}",
                                             "snippet": "import gc, weakref; from dsdobjects.objectio import *; set_io_objects(); out = read_pil("
                                                        + repr(t) + "); refs=[weakref.ref(o) for o in out['complexes'].values()]; del out; gc.collect(); print([r() for r in refs])"})
    ctx.cov["correspondence"]["read_pil_release(impl)"] = {"documents": len(docs), "not_released": bad,
                                                           "objects": sum(r[0] for r in res if not isinstance(r, Err))}


def containers_while_rotating(ctx):
    """macrostates / reactions keep their identity while member complexes are rotated (direct statement on the implementation)"""
    import gen_structs as gs, gen_pil
    from common import run_impl, Err
    rng = ctx.rng
    reqs = []
    structs = [s for s in gs.all_wf(5) if "+" in s]
    for _ in range(150 if ctx.tier == "quick" else 3000):
        specs, seen = [], set()
        while len(specs) < rng.randrange(2, 4):
            s = rng.choice(structs)
            sq = gs.seq_for(rng, s, names=("a", "b"))
            key = gen_pil.canon(sq, list(s))
            if key not in seen:
                seen.add(key)
                specs.append([sq, list(s), 0])
        reqs.append(("c05_macro_after_turns", [specs, [[rng.randrange(3), rng.randrange(-2, 5)] for _ in range(rng.randrange(1, 4))], rng.randrange(2)]))
    bad = 0
    for rq, r in zip(reqs, run_impl(reqs)):
        if isinstance(r, Err) or r:
            bad += 1
            ctx.violation("counterexample", {"key": {"macro_after_turns": rq[1]}, "input": {"macro_after_turns": rq[1]}, "what": str(r),
                                             "snippet": f"# harness op c05_macro_after_turns {rq[1]!r} (harness/impl/compare.py)"})
    ctx.cov["correspondence"]["containers-while-rotating(impl)"] = {"cases": len(reqs), "failures": bad}


# ---------------------------------------------------------------------------
# querying never prolongs a lifetime: every public property, setter, method and special method (discovered on the
# imported classes), with arguments in and out of range, on connected and disconnected complexes, strands, macrostates
# and reactions; then references are dropped (all, or all but a few) -- direct statement on the implementation
def _loc(rng, seq):
    strands = [len(p) for p in "".join("+" if x == "+" else "d" for x in seq).split("+")]
    if rng.random() < 0.8:
        si = rng.randrange(len(strands))
        return ["#t", si, rng.randrange(max(1, strands[si]))]
    return ["#t", rng.randrange(-1, len(strands) + 1), rng.randrange(-1, 4)]


def _query(rng, S, ref, name, what, default=False):
    """one query [ref, name, args, mode] on object `ref` of system S"""
    kind, idx = ref
    seq = S[2][idx][0] if kind == "C" else ["a"]
    others = [[k, i] for k, n in (("D", len(S[1])), ("C", len(S[2])), ("M", len(S[3])), ("R", len(S[4]))) for i in range(n)]
    mode = 0 if default else rng.randrange(2)
    if what == "get":
        return [ref, name, None, mode]
    if what == "set":
        if name == "turns":
            v = rng.randrange(-3, 6)
        elif name == "concentration":
            v = rng.choice([None, ["#t", rng.choice(["initial", "constant"]), rng.choice([0, 5, 2.5]), rng.choice(["M", "nM", "uM"])]])
        elif name == "rate_constant":
            v = rng.choice([7, 0.5, ["#t", 3], ["#t", 1e6, "/M/s"], ["#t", 2.5, "/s"]])
        else:
            v = rng.choice(["x", 7, None, ["@"] + rng.choice(others)])
        return [ref, "=" + name, [v], mode]
    if what == "dunder":
        if name in ("__repr__", "__str__", "__len__", "__hash__", "__invert__"):
            return [ref, name, [], mode]
        same = [o for o in others if o[0] == kind]
        other = ref if default else rng.choice([ref, rng.choice(same), rng.choice(others), "x", None])
        return [ref, name, [["@"] + other if isinstance(other, list) else other], mode]
    # methods
    if name in ("rotate", "rotate_pt"):
        args = [] if default or rng.random() < 0.5 else [rng.randrange(0, 5)]
    elif name == "strand_length":
        args = [0 if default else rng.randrange(-1, 4)]
    elif name in ("get_loop_index", "get_domain", "get_paired_loc"):
        args = [["#t", 0, 0] if default else _loc(rng, seq)]
    elif name == "rotate_pairtable_loc":
        args = [["#t", 0, 0] if default else _loc(rng, seq), rng.randrange(-2, 4)]
    elif name == "concentrationformat":
        args = [rng.choice(["M", "nM", "uM", "furlong"])]
    elif name == "rateformat":
        args = [rng.choice(["/M/s", "/nM/s", "/s", "/M/M/h", "x"])]
    else:
        args = []
    return [ref, name, args, mode]


def _system(rng, structs, shape=None):
    """-> [dk, doms, cplxs, macros, rxns] with pairwise distinct objects"""
    import gen_structs as gs, gen_pil
    lengths = {b: rng.choice([3, 5, 5, 9, 15]) for b in "abc"}
    cplxs, seen = [], set()
    want = 1 if shape is not None else rng.randrange(1, 4)
    while len(cplxs) < want:
        if shape is None and rng.random() < 0.2 or shape == "strand":
            sq = [rng.choice("abc") + rng.choice(["", "", "*"]) for _ in range(rng.randrange(1, 4))]
            st, key = None, (tuple(sq), None)
        else:
            st = shape if shape is not None else rng.choice(structs)
            sq = gs.seq_for(rng, st, names=("a", "b", "c"))
            key = gen_pil.canon(sq, list(st))
        if key in seen:
            continue
        seen.add(key)
        cplxs.append([sq, st, f"X{len(cplxs)}", rng.randrange(2)])
    used = sorted({x for c in cplxs for x in c[0] if x != "+"} | ({rng.choice("abc")} if rng.random() < 0.3 else set()))
    doms = [[n, lengths[n.rstrip("*")]] for n in used]
    idx = list(range(len(cplxs)))
    rng.shuffle(idx)
    macros = []
    for _ in range(rng.randrange(0, 3)):          # disjoint member sets: distinct representatives
        k = rng.randrange(1, 3)
        if len(idx) >= k:
            macros.append([[idx.pop() for _ in range(k)], rng.randrange(2)])
    rxns, seen = [], set()
    for _ in range(rng.randrange(0, 3)):
        over = "m" if macros and rng.random() < 0.4 else "c"
        n = len(macros) if over == "m" else len(cplxs)
        re = [rng.randrange(n) for _ in range(rng.randrange(1, 3))]
        pr = [rng.randrange(n) for _ in range(rng.randrange(1, 3))]
        rtype = "condensed" if over == "m" else rng.choice(["bind21", "open", "branch-3way"])
        k = rng.randrange(2)
        key = (tuple(sorted(re)), tuple(sorted(pr)), rtype, k)
        if key not in seen:
            seen.add(key)
            rxns.append([re, pr, rtype, over, k])
    return [rng.randrange(2), doms, cplxs, macros, rxns]


def _refs(S):
    return [[k, i] for k, n in (("C", len(S[2])), ("C", len(S[2])), ("D", len(S[1])), ("M", len(S[3])), ("R", len(S[4]))) for i in range(n)]


def _cat_kind(S, ref):
    return "S" if ref[0] == "C" and S[2][ref[1]][1] is None else ref[0]


TIDY = {0: "", 1: "{v}.clear()", 2: "{v}.pop()", 3: "{v}.append({o})", 4: "{v}[:] = [{o}]", 5: "", 6: "del {v}[0]", 7: "{v}.reverse()"}


def _qr_snippet(arg):
    dk, doms, cplxs, macros, rxns, queries, keep = arg[:7]
    tidy = arg[7] if len(arg) > 7 else None

    def val(a):
        if isinstance(a, list) and a and a[0] == "#t":
            return "(" + "".join(val(x) + ", " for x in a[1:]) + ")"
        if isinstance(a, list) and len(a) == 3 and a[0] == "@":
            return f"{a[1]}[{a[2]}]"
        return repr(a)
    L = ["import gc, weakref, operator; gc.disable()   # release must not depend on the cyclic collector",
         "from dsdobjects.base_classes import DomainS, ComplexS, StrandS, MacrostateS, ReactionS",
         "class DomA(DomainS): pass", "class CplxA(ComplexS): pass", "class StrandA(StrandS): pass",
         "class MacA(MacrostateS): pass", "class RxnA(ReactionS): pass",
         f"dom = {['DomainS', 'DomA'][dk]}",
         "d = {n: dom(n, l) for n, l in " + repr([tuple(x) for x in doms]) + "}",
         "D = list(d.values()); C = []; M = []; R = []"]
    for seq, sst, name, k in cplxs:
        sq = "[" + ", ".join("'+'" if x == "+" else f"d[{x!r}]" for x in seq) + "]"
        if sst is None:
            L.append(f"C.append({['StrandS', 'StrandA'][k]}({sq}, name={name!r}))")
        else:
            L.append(f"C.append({['ComplexS', 'CplxA'][k]}({sq}, list({sst!r}), name={name!r}))")
    def own(var, p, idx, mode, n):
        """the caller's own container, and what the caller does with it afterwards"""
        other = next((j for j in range(n) if j not in idx), 0)
        br = "()" if mode == 5 else "[]"
        return (f"{var} = {br[0]}" + "".join(f"{p}[{i}], " for i in idx) + br[1], TIDY[mode].format(v=var, o=f"{p}[{other}]"))
    for j, (ms, k) in enumerate(macros):
        if tidy is None:
            L.append(f"M.append({['MacrostateS', 'MacA'][k]}([" + ", ".join(f"C[{i}]" for i in ms) + "]))")
        else:
            a, after = own("cs", "C", ms, tidy[0][j], len(cplxs))
            L.append(f"{a}; M.append({['MacrostateS', 'MacA'][k]}(cs)); {after or 'pass'}; del cs")
    for j, (re, pr, rtype, over, k) in enumerate(rxns):
        p = "C" if over == "c" else "M"
        if tidy is None:
            L.append(f"R.append({['ReactionS', 'RxnA'][k]}([" + ", ".join(f"{p}[{i}]" for i in re) + "], [" +
                     ", ".join(f"{p}[{i}]" for i in pr) + f"], {rtype!r}))")
        else:
            n = len(cplxs) if over == "c" else len(macros)
            a, after_a = own("re", p, re, tidy[1][j][0], n)
            b, after_b = own("pr", p, pr, tidy[1][j][1], n)
            L.append(f"{a}; {b}; R.append({['ReactionS', 'RxnA'][k]}(re, pr, {rtype!r})); {after_a or 'pass'}; {after_b or 'pass'}; del re, pr")
    L.append("refs = {k: [(repr(o), weakref.ref(o)) for o in v] for k, v in (('D', D), ('C', C), ('M', M), ('R', R))}")
    L.append("del d")
    for (kind, i), name, args, mode in queries:
        o = f"{kind}[{i}]"
        if name.startswith("="):
            stmt = f"{o}.{name[1:]} = {val(args[0])}"
        else:
            if name == "__invert__":
                e = f"~{o}"
            elif name.startswith("__") and args is not None:
                f = {"__repr__": "repr", "__str__": "str", "__len__": "len", "__hash__": "hash"}.get(name, "operator." + name)
                e = f"{f}(" + ", ".join([o] + [val(a) for a in args]) + ")"
            else:
                e = f"{o}.{name}" + ("" if args is None else "(" + ", ".join(val(a) for a in args) + ")")
            stmt = f"r = {e}; " + ("next(r, None) if hasattr(r, '__next__') else None" if mode else
                                  "list(r) if hasattr(r, '__next__') else None") + "; del r"
        L.append(f"try: {stmt}\nexcept Exception: pass")
    L.append("kept = [" + ", ".join(f"{k}[{i}]" for k, i in keep) + "]")
    if tidy is not None:
        L.append("print('macrostates:', [[x.name for x in m.complexes] for m in M], ' reactions:', [([x.name for x in r.reactants], [x.name for x in r.products]) for r in R])")
    L.append("del D, C, M, R")
    L.append("print('alive:', [n for v in refs.values() for n, r in v if r() is not None], ' kept:', kept)")
    return "\n".join(L)


def _qr_bad(r):
    from common import Err
    return isinstance(r, Err) or bool(r[0])


def _qr_remove(arg, kind, i):
    """the request without object (kind, i), or None when something refers to it"""
    import copy
    dk, doms, cplxs, macros, rxns, queries, keep = copy.deepcopy(arg)

    def refers(x):
        if isinstance(x, list):
            if len(x) == 3 and x[0] == "@" and x[1] == kind and x[2] == i:
                return True
            return any(refers(y) for y in x)
        return False
    if any(q[0] == [kind, i] or refers(q[2]) for q in queries) or [kind, i] in keep:
        return None
    if kind == "D" and any(doms[i][0] in c[0] for c in cplxs):
        return None
    if kind == "C" and (any(i in m[0] for m in macros) or any(r[3] == "c" and i in r[0] + r[1] for r in rxns)):
        return None
    if kind == "M" and any(r[3] == "m" and i in r[0] + r[1] for r in rxns):
        return None

    def fix(x):
        """renumber references to objects of this kind above i"""
        if isinstance(x, list):
            if len(x) == 3 and x[0] == "@" and x[1] == kind:
                return ["@", kind, x[2] - (x[2] > i)]
            return [fix(y) for y in x]
        return x
    dn = lambda j: j - (j > i)
    if kind == "D":
        del doms[i]
    elif kind == "C":
        del cplxs[i]
        macros = [[[dn(j) for j in m[0]], m[1]] for m in macros]
        rxns = [[[dn(j) for j in r[0]], [dn(j) for j in r[1]]] + r[2:] if r[3] == "c" else r for r in rxns]
    elif kind == "M":
        del macros[i]
        rxns = [[[dn(j) for j in r[0]], [dn(j) for j in r[1]]] + r[2:] if r[3] == "m" else r for r in rxns]
    else:
        del rxns[i]
    queries = [[[q[0][0], dn(q[0][1])] if q[0][0] == kind else q[0], q[1], fix(q[2]), q[3]] for q in queries]
    keep = [[k, dn(j)] if k == kind else [k, j] for k, j in keep]
    return [dk, doms, cplxs, macros, rxns, queries, keep]


def _qr_shrink(arg, rounds=24):
    """fewer queries (one alone, then halves, then one by one), fewer survivors, fewer objects, plain modes"""
    from common import run_impl

    def first_bad(cands):
        if not cands:
            return None
        res = run_impl([("c05_query_release", c) for c in cands])
        return next((c for c, r in zip(cands, res) if _qr_bad(r)), None)

    def with_q(a, qs):
        return a[:5] + [qs, a[6]]
    qs = arg[5]
    best = first_bad([with_q(arg, [q]) for q in qs] + [with_q(arg, qs[k:k + 2]) for k in range(len(qs) - 1)])
    if best is not None:
        arg = best
    n = 2
    while len(arg[5]) >= 2 and n <= len(arg[5]):
        qs = arg[5]
        size = (len(qs) + n - 1) // n
        chunks = [qs[k:k + size] for k in range(0, len(qs), size)]
        best = first_bad([with_q(arg, c) for c in chunks] +
                         [with_q(arg, [q for j, c in enumerate(chunks) if j != k for q in c]) for k in range(len(chunks))])
        if best is not None:
            arg, n = best, 2
        elif size == 1:
            break
        else:
            n = min(len(qs), n * 2)
    for _ in range(rounds):
        dk, doms, cplxs, macros, rxns, queries, keep = arg
        cands = [[dk, doms, cplxs, macros, rxns, queries, keep[:k] + keep[k + 1:]] for k in range(len(keep))]
        for kind, n in (("R", len(rxns)), ("M", len(macros)), ("C", len(cplxs)), ("D", len(doms))):
            cands += [c for c in (_qr_remove(arg, kind, i) for i in range(n)) if c is not None]
        if any(q[3] for q in queries):
            cands.append([dk, doms, cplxs, macros, rxns, [q[:3] + [0] for q in queries], keep])
        best = first_bad(cands)
        if best is None:
            break
        arg = best
    return arg


def queries_release(ctx):
    """querying (every property, setter, method, special method), with caught errors, never prolongs a lifetime"""
    import gen_structs as gs
    from common import run_impl, Err
    import time
    t0 = time.time()
    rng, quick = ctx.rng, ctx.tier == "quick"
    cat = run_impl([("c05_catalogue", None)])[0]
    if isinstance(cat, Err):
        raise RuntimeError(f"catalogue of queries not available: {cat!r}")
    cat = {k: [tuple(e) for e in v] for k, v in cat}
    structs = list(gs.all_wf(5)) + [gs.random_wf(rng, rng.randrange(4, 9), p_break=0.3) for _ in range(40)]
    args = []
    # every entry of the catalogue once, on fixed shapes: connected, disconnected (two ways), nested, one strand, a StrandS
    for shape in ("(+)", ".+.", "(+)+.", "((+.)+)", "(.)", "..", "strand"):
        for keep in ([], [["D", 0]]):
            S = _system(rng, structs, shape=shape)
            qs = []
            for ref in [["C", 0]] + [[k, 0] for k, n in (("D", 1), ("M", len(S[3])), ("R", len(S[4]))) if n]:
                entries = list(cat[_cat_kind(S, ref)])
                rng.shuffle(entries)
                qs += [_query(rng, S, ref, n, w, default=True) for n, w in entries]
            args.append(S + [qs, keep])
    # random systems, random queries with arguments in and out of range, random survivors
    for _ in range(400 if quick else 6000):
        S = _system(rng, structs)
        refs = _refs(S)
        qs = []
        for _ in range(rng.randrange(1, 9)):
            ref = rng.choice(refs)
            n, w = rng.choice(cat[_cat_kind(S, ref)])
            qs.append(_query(rng, S, ref, n, w))
            if rng.random() < 0.3:
                qs.append(list(qs[-1]))          # the same query twice in a row (caches, remembered outcomes)
        keep = [] if rng.random() < 0.5 else [list(x) for x in rng.sample(refs, min(len(refs), rng.randrange(1, 3)))]
        args.append(S + [qs, keep])
    res = run_impl([("c05_query_release", a) for a in args])
    bad, reported, raised, nq = 0, set(), 0, 0
    for a, r in zip(args, res):
        nq += len(a[5])
        if not _qr_bad(r):
            raised += r[1]
            continue
        bad += 1
        if len(reported) >= 3:
            continue
        small = _qr_shrink(a)
        key = {"query_release": sorted({q[1] for q in small[5]}), "kinds": sorted({q[0][0] for q in small[5]})}
        if repr(key) in reported:
            continue
        reported.add(repr(key))
        r2 = run_impl([("c05_query_release", small)])[0]
        ctx.violation("counterexample", {"key": key, "input": {"query_release": small},
                                         "what": repr(r2) if isinstance(r2, Err) else "; ".join(r2[0]),
                                         "snippet": _qr_snippet(small)})
    ctx.add_eval(len(args), len(args))
    ctx.cov["correspondence"]["queries-never-prolong(impl)"] = {
        "cases": len(args), "queries": nq, "queries_that_raised": raised, "failures": bad,
        "catalogue": {k: len(v) for k, v in cat.items()}, "wall_s": round(time.time() - t0, 1)}


# ---------------------------------------------------------------------------
# a container holds its members itself: the member lists handed to MacrostateS / ReactionS are the caller's own, and the
# caller goes on using them (clear() as show_memory() recommends, pop, append, slice assignment, reuse) while holding the
# container only -- direct statement on the implementation (op c05_tidy_release)
def _tidy_shrink(arg):
    from common import run_impl
    flat = [("m", j, 0) for j in range(len(arg[3]))] + [("r", j, s) for j in range(len(arg[4])) for s in (0, 1)]

    def only(which, queries, keep):
        t = [[0] * len(arg[3]), [[0, 0] for _ in arg[4]]]
        for w, j, s in which:
            if w == "m":
                t[0][j] = arg[7][0][j]
            else:
                t[1][j][s] = arg[7][1][j][s]
        return arg[:5] + [queries, keep, t]
    cands = [only([f], [], [k]) for f in flat for k in arg[6]] + [only([f], [], arg[6]) for f in flat] + \
            [only(flat, [], arg[6]), only(flat, arg[5], arg[6])]
    res = run_impl([("c05_tidy_release", c) for c in cands])
    arg = next((c for c, r in zip(cands, res) if _qr_bad(r)), arg)
    for _ in range(8):          # objects nothing refers to
        cands = [c + [[[m for j, m in enumerate(arg[7][0]) if not (kind == "M" and j == i)],
                       [m for j, m in enumerate(arg[7][1]) if not (kind == "R" and j == i)]]]
                 for kind, n in (("R", len(arg[4])), ("M", len(arg[3])), ("C", len(arg[2])), ("D", len(arg[1])))
                 for i in range(n) for c in [_qr_remove(arg[:7], kind, i)] if c is not None]
        if not cands:
            break
        res = run_impl([("c05_tidy_release", c) for c in cands])
        best = next((c for c, r in zip(cands, res) if _qr_bad(r)), None)
        if best is None:
            break
        arg = best
    return arg


def containers_tidied(ctx):
    """macrostates and reactions hold their members themselves, whatever the caller does with the lists it passed"""
    import gen_structs as gs
    from common import run_impl, Err
    import time
    t0 = time.time()
    rng, quick = ctx.rng, ctx.tier == "quick"
    cat = run_impl([("c05_catalogue", None)])[0]
    cat = {} if isinstance(cat, Err) else {k: [tuple(e) for e in v] for k, v in cat}
    structs = list(gs.all_wf(5))
    modes = [0, 1, 1, 1, 2, 2, 3, 4, 5, 6, 7]
    args = []
    while len(args) < (250 if quick else 5000):
        S = _system(rng, structs)
        if not S[3] and not S[4]:
            continue
        refs = _refs(S)
        qs = []
        for _ in range(rng.randrange(0, 3) if cat else 0):
            ref = rng.choice(refs)
            n, w = rng.choice(cat[_cat_kind(S, ref)])
            qs.append(_query(rng, S, ref, n, w))
        holders = [[k, i] for k, n in (("M", len(S[3])), ("R", len(S[4]))) for i in range(n)]
        x = rng.random()
        keep = [] if x < 0.15 else [list(h) for h in rng.sample(holders, min(len(holders), rng.randrange(1, 3)))]
        if x > 0.8:
            keep.append(list(rng.choice(refs)))
            keep = [k for i, k in enumerate(keep) if k not in keep[:i]]
        tidy = [[rng.choice(modes) for _ in S[3]], [[rng.choice(modes), rng.choice(modes)] for _ in S[4]]]
        args.append(S + [qs, keep, tidy])
    res = run_impl([("c05_tidy_release", a) for a in args])
    bad, reported = 0, set()
    for a, r in zip(args, res):
        if not _qr_bad(r):
            continue
        bad += 1
        if len(reported) >= 3:
            continue
        small = _tidy_shrink(a)
        used = sorted({m for m in small[7][0]} | {m for p in small[7][1] for m in p})
        key = {"tidy_release": used, "macros": len(small[3]), "rxns": len(small[4])}
        if repr(key) in reported:
            continue
        reported.add(repr(key))
        r2 = run_impl([("c05_tidy_release", small)])[0]
        ctx.violation("counterexample", {"key": key, "input": {"tidy_release": small},
                                         "what": repr(r2) if isinstance(r2, Err) else "; ".join(r2[0]),
                                         "snippet": _qr_snippet(small)})
    ctx.add_eval(len(args), len(args))
    ctx.cov["correspondence"]["containers-hold-members-themselves(impl)"] = {
        "cases": len(args), "failures": bad,
        "containers_modified_afterwards": sum(1 for a in args for m in a[7][0] + [x for p in a[7][1] for x in p] if m not in (0, 5)),
        "one_member_sides": sum(1 for a in args for r in a[4] for side in r[:2] if len(side) == 1),
        "wall_s": round(time.time() - t0, 1)}


# ---------------------------------------------------------------------------
# no loss while referenced, across (re)configurations of the reader: sessions of set_io_objects (partial arguments, user
# classes, the base class passed explicitly) / clear_io_objects / read_pil (documents over ONE small name space, so that a
# later document re-declares the names of an earlier one) / direct constructions / drops, results held by the user;
# stated on the implementation after every step (harness/oracles/c05_sessions.py)
def _session_doc(rng):
    doms = rng.sample("abc", rng.randrange(1, 4))
    L = [f"length {d} = {rng.choice([5, 7, 10])}" for d in doms]
    names = rng.sample(["X", "Y", "Z"], rng.randrange(1, 4))
    for n in names:
        p, q = rng.choice(doms), rng.choice(doms)
        L.append(n + " = " + rng.choice(["{p} {q}", "{p}( {q} + )", "{p}( + ) {q}", "{p}( {q}( + ) )", "{q}* {p}", "{p}"]).format(p=p, q=q))
    if rng.random() < 0.3:
        L.insert(len(doms), f"strand s = {rng.choice(doms)} {rng.choice(doms)}")
    if rng.random() < 0.4:
        L += [f"state {n} = [{n}]" for n in names[:2]]
        if len(names) >= 2 and rng.random() < 0.5:
            L.append(f"reaction [condensed = 1 /s] {names[0]} -> {names[1]}")
    elif len(names) >= 2 and rng.random() < 0.5:
        L.append(f"reaction [{rng.choice(['open', 'bind21', 'branch-3way'])} = 3 /M/s] {names[0]} -> {names[1]}")
    return "\n".join(L) + "\n"


def _session(rng):
    nsub = {"D": 3, "S": 2, "C": 3, "M": 2, "R": 2}
    steps = [["set", {}]] if rng.random() < 0.7 else []
    for _ in range(rng.randrange(2, 9)):
        x = rng.random()
        if x < 0.35:
            steps.append(["set", {k: rng.randrange(n) for k, n in nsub.items() if rng.random() < 0.35}])
        elif x < 0.45:
            steps.append(["clear"])
        elif x < 0.8:
            if not any(s[0] == "set" for s in steps):
                steps.append(["set", {}])
            steps.append(["read", _session_doc(rng), rng.random() < 0.8])
        elif x < 0.92:
            steps.append(["make", rng.randrange(3), rng.randrange(3), rng.choice("abc"), rng.choice([5, 7, 10]), rng.choice(["X", "Y", "K"])])
        else:
            steps.append(["drop", rng.randrange(4)])
    return steps


def _sessions_run(sessions):
    from common import run_oracle
    return run_oracle("c05_sessions.py", {"sessions": sessions})["results"]


def _session_shrink(steps, rounds=10):
    for _ in range(rounds):
        cands = [steps[:k] + steps[k + 1:] for k in range(len(steps))]
        cands += [steps[:k] + [["set", {s: c for s, c in st[1].items() if s != drop}]] + steps[k + 1:]
                  for k, st in enumerate(steps) if st[0] == "set" for drop in st[1]]
        best = next((c for c, r in zip(cands, _sessions_run(cands)) if r), None) if cands else None
        if best is None:
            break
        steps = best
    return steps


def reader_sessions(ctx):
    """objects the user holds stay the singletons of their names and canonical forms across every reader (re)configuration"""
    import time
    t0 = time.time()
    rng = ctx.rng
    sessions = [_session(rng) for _ in range(150 if ctx.tier == "quick" else 4000)]
    bad, reported = 0, set()
    for s, r in zip(sessions, _sessions_run(sessions)):
        if not r:
            continue
        bad += 1
        if len(reported) >= 3:
            continue
        small = _session_shrink(s)
        r2 = _sessions_run([small])[0] or r
        key = {"reader_session": [st[0] for st in small], "what": r2["what"].split(":")[0].split(") ")[-1][:60]}
        if repr(key) in reported:
            continue
        reported.add(repr(key))
        ctx.violation("counterexample", {"key": key, "input": {"reader_session": small}, "what": r2["what"], "snippet": r2["snippet"]})
    ctx.add_eval(len(sessions), len(sessions))
    ctx.cov["correspondence"]["held-across-reader-reconfiguration(impl)"] = {
        "sessions": len(sessions), "steps": sum(len(s) for s in sessions),
        "reconfigurations_without_clear": sum(1 for s in sessions for a, b in zip(s, s[1:]) if b[0] == "set" and a[0] != "clear"),
        "failures": bad, "wall_s": round(time.time() - t0, 1)}


def run(ctx):
    reader_release(ctx)
    reader_sessions(ctx)
    containers_while_rotating(ctx)
    queries_release(ctx)
    # sessions of the reader: configured classes, results held across clear_io_objects (stated on the implementation)
    from common import run_oracle as _ro
    _x = _ro("c15_extra.py", {"seed": ctx.seed, "n": 25 if ctx.tier == "quick" else 300})
    for f in _x["failures"]:
        ctx.violation("counterexample", {"key": {"extra": f["steps"]}, "input": f["steps"], "what": "; ".join(f["what"]),
                                         "snippet": "# harness/oracles/c15_extra.py, steps: " + repr(f["steps"])})
    rh.run_check(ctx, "C05", batches, RULE, partial=PARTIAL)
    containers_tidied(ctx)          # (draws after all older generators: their streams stay as they were)


def replay(data):
    inp = data.get("input")
    if isinstance(inp, dict) and "macro_after_turns" in inp:
        from common import run_impl, Err
        r = run_impl([("c05_macro_after_turns", inp["macro_after_turns"])])[0]
        print(r)
        return 1 if (isinstance(r, Err) or r) else 0
    if isinstance(inp, dict) and "query_release" in inp:
        from common import run_impl
        r = run_impl([("c05_query_release", inp["query_release"])])[0]
        print(r)
        return 1 if _qr_bad(r) else 0
    if isinstance(inp, dict) and "tidy_release" in inp:
        from common import run_impl
        r = run_impl([("c05_tidy_release", inp["tidy_release"])])[0]
        print(r)
        return 1 if _qr_bad(r) else 0
    if isinstance(inp, dict) and "reader_session" in inp:
        r = _sessions_run([inp["reader_session"]])[0]
        print(r["what"] if r else None)
        return 1 if r else 0
    if isinstance(inp, list) and inp and isinstance(inp[0], str):
        print("steps of harness/oracles/c15_extra.py:", inp)
        return 1
    return rh.replay("C05", data)
