"""C17 — IUPAC complement and constraint arithmetic."""
import json
import gen_all
from common import prove, ensure_model_runner, run_oracle
from corr import correspond
from flow import conclude

DNA = "ACGTRYSMWKVHDBN"
RNA = "ACGURYSMWKVHDBN"


def cases_exhaustive():
    cs = []
    for mat, codes in (("DNA", DNA), ("RNA", RNA)):
        for c in codes:
            cs.append({"kind": "seq", "seq": c, "material": mat})
        for x in codes:
            for y in codes:
                cs.append({"kind": "add", "a": x, "b": y, "material": mat})
    return cs


COMMON = "ACGRYSMWKVHDBN"        # the codes that are legal for both materials
LENGTHS = sorted({n + d for n in (1, 2, 4, 8, 16, 32, 64, 128, 256, 512, 1024) for d in (-1, 0, 1)} | {3, 5, 12, 20, 24, 48, 100, 200})


def both_material_histories(rng, fns, n):
    """(model requests, implementation requests): function f on a T/U-free sequence s with one material, after calls of the
    same f (and of the other functions) on s and on relatives of s with the other material in the same process"""
    reqs, impl = [], []
    lengths = [L for L in LENGTHS if L > 0]
    for k in range(n):
        L = lengths[k % len(lengths)] if k < 2 * len(lengths) else rng.choice(lengths)
        alpha = COMMON if rng.random() < 0.7 else rng.choice(["ACG", "AN", "AC", "AG", "ASW", "ARY", "AKM", "ABDHV", "CGA"])
        s = "".join(rng.choice(alpha) for _ in range(L))
        rna = rng.random() < 0.5
        if rng.random() < 0.2:
            # add_constraints with both materials: same pair first with the other material
            t = "".join(rng.choice(COMMON if rng.random() < 0.8 else "N") for _ in range(L))
            earlier = [[s, t, not rna]] + [[t, s, not rna]] * (rng.random() < 0.5)
            earlier += [["@op", rng.choice(fns), [rng.choice([s, t]), rng.random() < 0.5]] for _ in range(rng.randrange(0, 3))]
            rng.shuffle(earlier)
            reqs.append(("add_constraints", [s, t, rna]))
            impl.append(("after", ["add_constraints", earlier, [s, t, rna]]))
            continue
        f = fns[k % len(fns)] if k < 2 * len(lengths) else rng.choice(fns)
        i = rng.randrange(L)
        relatives = [s[::-1], s[:L // 2], s + s, s[:i] + rng.choice(COMMON) + s[i + 1:], s[1:] + s[:1]]
        earlier = [[s, not rna]]                                            # same function, same sequence, other material
        earlier += [[r, rng.random() < 0.5] for r in rng.sample(relatives, rng.randrange(0, 3)) if r]
        earlier += [["@op", g, [s, rng.random() < 0.5]] for g in rng.sample(fns, rng.randrange(0, 4)) if g != f]
        if rng.random() < 0.3:
            earlier.append([s, rna])                                        # ... and the very same call once before
        rng.shuffle(earlier)
        if rng.random() < 0.3:
            earlier = earlier + [[s, not rna]]                              # the other material immediately before
        reqs.append((f, [s, rna]))
        impl.append(("after", [f, earlier, [s, rna]]))
    return reqs, impl


def run(ctx):
    rng = ctx.rng
    quick = ctx.tier == "quick"
    gen = ctx.gen
    res = prove(ctx)
    if gen["gen_iupac"]:
        res["ok"] = False
        res["build"].excerpt = "translator failed (fail-closed): " + gen["gen_iupac"]
    runner = ensure_model_runner()
    diffs = []
    rand_cases = []
    if runner.ok:
        reqs = []
        fns = ["wc_complement", "complement", "reverse_wc_complement", "reverse_complement"]
        for rna, codes in ((False, DNA), (True, RNA)):
            for c in codes + "UTXacgt*- ":
                for f in fns:
                    reqs.append((f, [c, rna]))
            for x in codes + "UTX":
                for y in codes + "UTX":
                    reqs.append(("add_constraints", [x, y, rna]))
        n = 1500 if quick else 40000
        for _ in range(n):
            rna = rng.random() < 0.5
            codes = RNA if rna else DNA
            L = rng.choice([0, 1, 2, 5, 17, 60, 200])
            s = "".join(rng.choice(codes) for _ in range(L))
            if rng.random() < 0.1 and L:
                i = rng.randrange(L)
                s = s[:i] + rng.choice("XUTn ") + s[i + 1:]
            reqs.append((rng.choice(fns), [s, rna]))
            rand_cases.append({"kind": "seq", "seq": s, "material": "RNA" if rna else "DNA"})
            t = "".join(rng.choice(codes if rng.random() < 0.8 else "N") for _ in range(L if rng.random() < 0.95 else L + 1))
            reqs.append(("add_constraints", [s, t, rna]))
            rand_cases.append({"kind": "add", "a": s, "b": t, "material": "RNA" if rna else "DNA"})
        # sequences over small sub-alphabets (self-complementary codes, purines/pyrimidines, ...): non-palindromic ones
        for _ in range(400 if quick else 6000):
            rna = rng.random() < 0.5
            alpha = rng.choice(["SWN", "SW", "N", "RY", "KM", "BDHV", "AU" if rna else "AT", "CG", "SWNRY"])
            s = "".join(rng.choice(alpha) for _ in range(rng.choice([2, 3, 4, 7, 12])))
            reqs.append((rng.choice(fns), [s, rna]))
            rand_cases.append({"kind": "seq", "seq": s, "material": "RNA" if rna else "DNA"})
        diffs = correspond(ctx, "iupac", reqs)
        # the legacy SequenceConstraint shares nothing with these functions: the same requests after calls into the legacy class
        # (both materials, any order) and into the functions with the other material, in the same process
        areqs, aimpl = [], []
        lfn = ["legacy_wc_complement", "legacy_complement", "legacy_reverse_wc_complement", "legacy_reverse_complement"]
        for rq in rng.sample(reqs, min(len(reqs), 400 if quick else 4000)):
            earlier = [["@op", rng.choice(lfn), ["".join(rng.choice("ACGUN" if r_ else "ACGTN") for _ in range(rng.randrange(1, 6))), r_]]
                       for r_ in rng.sample([True, False, True, False], rng.randrange(1, 4))]
            if rq[0] != "add_constraints":
                earlier.append(["@op", rng.choice(fns), [rq[1][0].replace("T", "A").replace("U", "A"), not rq[1][1]]])
            rng.shuffle(earlier)
            areqs.append(rq)
            aimpl.append(("after", [rq[0], earlier, rq[1]]))
        diffs += correspond(ctx, "iupac-after-other-calls", areqs, impl_reqs=aimpl)
        # sequences that are legal for BOTH materials (no T, no U), of every length around the powers of two up to 1025, asked
        # after the SAME function saw the same sequence (and relatives of it: reversed, a prefix, doubled, one code changed)
        # with the other material, and after the other three functions saw it with either material, in the same process:
        # the material is an argument of every call, nothing remembered from an earlier call may answer for it
        breqs, bimpl = both_material_histories(rng, fns, 260 if quick else 3000)
        diffs += correspond(ctx, "iupac-both-materials-one-process", breqs, impl_reqs=bimpl)
    ctx.cov["rule"] = ("all single letters (15 codes + foreign letters) x 2 materials x 4 functions, all code pairs for "
                       "add_constraints, random sequences up to length 200 with 10% single foreign letters; "
                       "T/U-free sequences of lengths 1..1025 (around every power of two) asked after the same function saw "
                       "them with the other material in the same process; "
                       "non-trivial = distinct agreed results")

    def search(diffs):
        cases = cases_exhaustive()
        valid = lambda s, m: all(ch in (RNA if m == "RNA" else DNA) for ch in s)
        for c in rand_cases[:4000]:
            if c["kind"] == "seq" and valid(c["seq"], c["material"]):
                cases.append(c)
            elif c["kind"] == "add" and len(c["a"]) == len(c["b"]) and valid(c["a"], c["material"]) and valid(c["b"], c["material"]):
                cases.append(c)
        out = run_oracle("c17.py", {"cases": cases})
        found = []
        for f in out["failures"][:10]:
            found.append({"key": {"fn": f["fn"], "seq": f["seq"], "material": f["material"]}, "input": f,
                          "what": f"{f['fn']}({f['seq']!r}, material={f['material']!r}) = {f['observed']}, set semantics give {f['expected']}",
                          "snippet": f"from dsdobjects.iupac_utils import *; print({f['fn']}(*{[f['seq']] if isinstance(f['seq'], str) else f['seq']!r}, material={f['material']!r}))"})
        from corr import after_witnesses
        return after_witnesses(diffs) + found

    conclude(ctx, res, runner, diffs, search)


def replay(data):
    f = data.get("input")
    if not f:
        print("replay names a broken link only:", json.dumps(data.get("broken_links"))[:2000])
        return 1
    if isinstance(f, dict) and "after" in f:
        from common import run_impl
        name, earlier, args = f["after"]
        a, b = run_impl([(name, args)], jobs=1)[0], run_impl([("after", f["after"])], jobs=1)[0]
        print("first call:", a, "| after earlier calls:", b)
        return 1 if a != b else 0
    case = ({"kind": "seq", "seq": f["seq"], "material": f["material"]} if f["fn"] != "add_constraints"
            else {"kind": "add", "a": f["seq"][0], "b": f["seq"][1], "material": f["material"]})
    out = run_oracle("c17.py", {"cases": [case]})
    print(json.dumps(out))
    return 1 if out["failures"] else 0
