"""C08 — loop indices, connectivity and exterior domains follow the loop decomposition."""
import json
from common import prove, ensure_model_runner, run_oracle, Err, enc
from corr import correspond, shrink, disagree_one
from flow import conclude
import gen_structs as gs
import loops_common as lc

PARTIAL = []      # full statements not proved yet (filled from coq/props/C08.v markers below)


def canon(op, v):
    """the exterior set is compared as a set (the model lists it in insertion order)"""
    if op == "make_loop_index" and not isinstance(v, Err):
        return [v[0], sorted(v[1])]
    return v


def req_for(op, s, rng=None, seq=None):
    if op in ("make_loop_index", "make_loop_index_comp"):
        return (op, lc.table_of(s))
    if op == "cx_views":
        order = [0, 1, 2, 3, 4]
        if rng is not None:
            rng.shuffle(order)
            order += [rng.randrange(5)]
        return (op, [seq or gs.seq_for(rng, s), list(s), order])
    raise KeyError(op)


def requests(ctx):
    rng = ctx.rng
    quick = ctx.tier == "quick"
    L = 8 if quick else 10
    small = lc.small_scope(L)
    batches, origin = {}, {}

    def add(name, op, structs, **kw):
        reqs = []
        for s in structs:
            rq = req_for(op, s, **kw)
            origin[enc(rq[1])] = (op, s)
            reqs.append(rq)
        batches.setdefault(name, []).extend(reqs)

    # (i) small scope, utility level: every well-formed structure, both modes
    add("make_loop_index/exhaustive", "make_loop_index", small)
    add("make_loop_index_comp/exhaustive", "make_loop_index_comp", small)
    # empty strands are outside the property but inside the model: a sample pins the guards
    empties = [s for s in gs.all_wf(6 if quick else 7, nonempty=False) if not gs.nonempty_strands(s)]
    add("make_loop_index/empty-strands", "make_loop_index", empties)
    add("make_loop_index_comp/empty-strands", "make_loop_index_comp", empties)
    # (ii) structured random: up to 60 strands, depth up to 100
    big = [lc.random_mixed(rng) for _ in range(600 if quick else 10000)]
    big += ["(" * 100 + "+" + ")" * 100, "(+" * 58 + "." + ")" * 58, "(.+" * 59 + "." + ")" * 59,
            "+".join(["(+)"] * 30), "(" + "+.+".join(["(+)"] * 12) + ")"]
    big = [s for s in big if gs.is_wf(s) and gs.nonempty_strands(s) and s.count("+") < 60]
    add("make_loop_index/random", "make_loop_index", big)
    add("make_loop_index_comp/random", "make_loop_index_comp", big)
    # (iii) damaged pair tables: the error paths (IndexError, SecondaryStructureError, odd loops)
    dmg = []
    src = small[:: (3 if quick else 1)] + big[:200]
    for s in src:
        t = lc.damage(rng, lc.table_of(s))
        dmg.append((rng.choice(["make_loop_index", "make_loop_index_comp"]), t))
    batches["make_loop_index/damaged-tables"] = dmg
    # (iv) object level: all five views in a random order (results must not depend on it)
    small_obj = lc.small_scope(L - 1)
    reqs = []
    for s in small_obj:
        seq = gs.seq_for(rng, s, names=("a", "b", "c"), complementary=rng.random() < 0.7)
        rq = req_for("cx_views", s, rng=rng, seq=seq)
        origin[enc(rq[1])] = ("cx_views", s)
        reqs.append(rq)
    for s in big[: (150 if quick else 3000)]:
        seq = gs.seq_for(rng, s, names=("a", "b", "c", "longer"), complementary=rng.random() < 0.8)
        rq = req_for("cx_views", s, rng=rng, seq=seq)
        origin[enc(rq[1])] = ("cx_views", s)
        reqs.append(rq)
    batches["views"] = reqs
    # get_loop_index: positions inside and outside the table
    gli = []
    for s in rng.sample(small_obj, min(len(small_obj), 600 if quick else 6000)):
        seq = gs.seq_for(rng, s)
        gli.append(("cx_get_loop_index", [seq, list(s), [rng.randrange(0, s.count("+") + 2), rng.randrange(0, 5)]]))
    batches["get_loop_index"] = gli
    # ill-formed structures and sequences whose breaks are not aligned: a value or the modelled exception
    ill = []
    for s in rng.sample(small_obj, min(len(small_obj), 300 if quick else 3000)):
        s2 = gs.mutate(rng, s, "().+")
        if not s2 or not gs.nonempty_strands(s2):
            continue
        seq = ["+" if c == "+" else rng.choice(["a", "b", "a*"]) for c in s2]
        if rng.random() < 0.3:
            k = rng.randrange(len(seq))
            seq[k] = "+" if seq[k] != "+" else "a"
        if "".join(seq).strip("+") != "".join(seq) or "++" in "".join(seq) or all(x == "+" for x in seq):
            continue
        ill.append(("cx_views", [seq, list(s2), [0, 1, 2, 3, 4]]))
    # no strands at all / lengths that differ: ObjectInitError
    ill += [("cx_views", [sq, list(st), [0, 1, 2, 3, 4]]) for sq, st in
            [(["+"], "+"), ([], ""), (["+", "+"], "++"), (["+"], "."), (["a"], ""), (["a", "+"], "(+)"), (["a"], "+")]]
    batches["views/ill-formed"] = ill
    # domain complement names
    batches["toggle"] = [("toggle", n) for n in ["a", "a*", "b", "long_name", "long_name*", "x1", "x1*", "t**"]]
    return batches, origin, small, big


def after_requests(ctx, small, big):
    """{batch: (model requests, implementation requests)}: the implementation is asked the same question after a history
    of earlier, independent calls in the same process (implrunner op `after`); the model is asked the question alone"""
    rng = ctx.rng
    quick = ctx.tier == "quick"
    modes = ("make_loop_index", "make_loop_index_comp")
    multi = [s for s in small if "+" in s]
    disc = [s for s in multi if len(lc.components(s)) > 1]
    conn = [s for s in multi if len(lc.components(s)) == 1]
    n = 250 if quick else 2500
    pool = rng.sample(disc, min(len(disc), n)) + rng.sample(conn, min(len(conn), n // 2)) + \
        [s for s in big if "+" in s][: (40 if quick else 400)] + ["((+))+((+))", "(+)+(+)", ".+.", "(+)+.", "(.+(+)+.)+.", "(+(+)+)"]

    def other_calls(s, t, mode):
        """earlier calls related to the table t of s, as entries of an `after` history whose operation is `mode`"""
        alt = modes[1 - modes.index(mode)]
        e = [["@op", alt, t], ["@op", "split_complex_pt", [lc.unique_stab(s), t]], t, lc.damage(rng, t),
             ["@op", alt, lc.damage(rng, t)], ["@op", alt, lc.table_of(rng.choice(multi))]]
        e = [x for x in e if rng.random() < 0.75]
        rng.shuffle(e)
        return e

    ureqs, uimpl = [], []
    for s in pool:
        t = lc.table_of(s)
        for mode in modes:
            target = t if rng.random() < 0.85 else lc.damage(rng, t)
            ureqs.append((mode, target))
            uimpl.append(("after", [mode, other_calls(s, t, mode), target]))
    # object level: the five views of a freshly built complex after split() of an equal complex (earlier registries are
    # cleared by every op: only module-level state of the utilities can survive) and after utility calls on its table
    oreqs, oimpl = [], []
    opool = [s for s in disc if len(s) <= 7]
    opool = rng.sample(opool, min(len(opool), 80 if quick else 1200)) + rng.sample(conn, min(len(conn), 25 if quick else 400)) + \
        ["((+))+((+))", "(+)+((+))", ".+(+)"]
    for s in opool:
        seq = gs.seq_for(rng, s, names=("a", "b", "c"), complementary=rng.random() < 0.7)
        rq = req_for("cx_views", s, rng=rng, seq=seq)
        e = [["@op", "cx_split", [seq, list(s)]], ["@op", "make_loop_index_comp", lc.table_of(s)],
             ["@op", "cx_split", [gs.seq_for(rng, s), list(s)]], [seq, list(s), [2, 3, 1, 0, 4]]]
        e = [x for x in e if rng.random() < 0.7]
        rng.shuffle(e)
        oreqs.append(rq)
        oimpl.append(("after", ["cx_views", e, rq[1]]))
    return {"make_loop_index/after-earlier-calls": (ureqs, uimpl), "views/after-earlier-calls": (oreqs, oimpl)}


def minimal_history(w):
    """drop earlier calls from a failing `after` history while the answer still differs from that of a first call"""
    from common import run_impl
    name, earlier, args = w["input"]["after"]
    fresh = canon(name, run_impl([(name, args)], jobs=1)[0])

    def again(hist):
        return canon(name, run_impl([("after", [name, hist, args])], jobs=1)[0])
    k = 0
    while k < len(earlier) and len(earlier) > 1:
        shorter = earlier[:k] + earlier[k + 1:]
        if again(shorter) != fresh:
            earlier = shorter
        else:
            k += 1
    got = again(earlier)
    if got == fresh:
        return w
    return {"key": {"after": [name, earlier, args]}, "input": {"after": [name, earlier, args]},
            "what": f"{name}{args!r} answers {got!r} after the earlier calls {earlier!r} in the same process, but {fresh!r} as a first call",
            "snippet": f"# harness op after {[name, earlier, args]!r} (harness/implrunner.py)"}


def history_witnesses(diffs):
    """disagreements of view histories (query, turns assignment, query): the direct statement of the property on the
    implementation is that every view equals that of a fresh complex at the same rotation"""
    from common import run_impl, Err
    hreqs = [d[1] for d in diffs if d[1][0] == "c03_history"][:20]
    out = []
    if hreqs:
        for rq, r in zip(hreqs, run_impl([("c03_fresh_compare", q[1]) for q in hreqs])):
            if isinstance(r, Err) or r:
                out.append({"key": {"seq": rq[1][0], "struct": "".join(rq[1][1]), "ops": rq[1][2]}, "input": {"history": rq[1]},
                            "what": str(r), "snippet": f"# harness op c03_fresh_compare {rq[1]!r} (harness/impl/views.py)"})
    return out


def run(ctx):
    res = prove(ctx)
    runner = ensure_model_runner()
    diffs, direct = [], []
    origin, small, big = {}, [], []
    if runner.ok:
        batches, origin, small, big = requests(ctx)
        # exterior / enclosed domains, loop indices and connectivity must describe the CURRENT rotation: query,
        # rotate the object through `turns`, query again in the other order (state machine of Model/Views.v)
        tr = []
        pool = [x for x in small if "+" in x and len(x) <= 7] + ["(.(+)).", "((.)+)", "(+(.))", "(.(+).)", "((.)(+))", "(+)(.)", "(.)(+)", "(.(+)+).", "(+(.)+)", "(.)+.", ".+(.)", "(.)(+).", "(+(.))+."]
        for s_ in (pool if ctx.tier != "quick" else ctx.rng.sample(pool, min(len(pool), 300)) + pool[-8:]):
            n_ = s_.count("+") + 1
            sq_ = gs.seq_for(ctx.rng, s_)
            for first in (["enclosed_domains"], ["exterior_domains"], ["get_loop_index", [0, 0]], ["is_connected"]):
                tr.append(("c03_history", [sq_, list(s_), [first, ["set_turns", ctx.rng.randrange(1, n_ + 2)],
                                                            ["enclosed_domains"], ["exterior_domains"],
                                                            ["get_loop_index", [0, 0]], ["is_connected"]]]))
        batches["views-after-turns"] = tr
        for name, reqs in batches.items():
            diffs += correspond(ctx, name, reqs, canon=canon)
        # nothing survives between independent calls: the same request after earlier calls in the same process on the
        # SAME pair table in the other mode (components=True scans disconnected structures to the end, the plain mode
        # raises), through split_complex_pt / ComplexS.split() (which scan in components mode), and on related tables
        # (a single-fault damaged copy, another structure); connected and disconnected targets, both modes
        for name, (reqs, impl) in after_requests(ctx, small, big).items():
            diffs += correspond(ctx, name, reqs, canon=canon, impl_reqs=impl)
        # direct statement on the implementation: consuming split() (which works on the object's own tables) leaves every
        # position-level view of the object equal to that of a freshly built complex
        from common import run_impl, Err
        sp = []
        spool = [x for x in small if "+" in x and len(x) <= 8]
        for s_ in ctx.rng.sample(spool, min(len(spool), 400 if ctx.tier == "quick" else 4000)) + ["..+((+))", ".+(+)", "((+..+))", "((+))+.", "(+)+(+)", ".+.+(+)", "(+)+.+(.)"]:
            sq_ = gs.seq_for(ctx.rng, s_, complementary=True)
            n_ = s_.count("+") + 1
            first = ctx.rng.choice([["pair_table"], ["exterior_domains"], ["is_connected"], ["strand_table"]])
            sp.append(("c03_fresh_compare", [sq_, list(s_), [first, ["split"], ["pair_table"], ["is_domainlevel_complement"],
                                                              ["get_paired_loc", [ctx.rng.randrange(n_), 0]], ["strand_table"],
                                                              ["is_connected"], ["exterior_domains"], ["enclosed_domains"],
                                                              ["kernel_string"], ["set_turns", 1], ["split"], ["pair_table"],
                                                              ["is_domainlevel_complement"], ["rotate_pt"]]]))
        for rq, r in zip(sp, run_impl(sp)):
            if isinstance(r, Err) or r:
                direct.append({"key": {"seq": rq[1][0], "struct": "".join(rq[1][1]), "ops": rq[1][2]}, "input": {"history": rq[1]},
                               "what": str(r), "snippet": f"# harness op c03_fresh_compare {rq[1]!r} (harness/impl/views.py)"})
        ctx.cov["correspondence"]["views-after-split(impl)"] = {"cases": len(sp), "failures": len(direct)}
        # is_domainlevel_complement is about the complement RELATION (`~` toggles one trailing star), not about base names:
        # names with several trailing stars and look-alike names, compared with `x is ~y` over the pair table
        dl = []
        spool2 = [x for x in small if "(" in x and len(x) <= 7]
        for s_ in ctx.rng.sample(spool2, min(len(spool2), 300 if ctx.tier == "quick" else 3000)):
            pool_ = ctx.rng.choice([("t", "t*", "t**"), ("t**", "t*", "t***"), ("a", "a*", "a**", "aa", "aa*")])
            dl.append(("cx_dlc_direct", [["+" if c == "+" else ctx.rng.choice(pool_) for c in s_], list(s_)]))
        n_dl = 0
        for rq, r in zip(dl, run_impl(dl)):
            if isinstance(r, Err):
                direct.append({"key": {"dlc": rq[1]}, "input": {"dlc": rq[1]}, "what": f"raised {r.kind}",
                               "snippet": f"# harness op cx_dlc_direct {rq[1]!r} (harness/impl/views.py)"})
            elif r[0] == "ok":
                n_dl += 1
                if r[1] != r[2]:
                    direct.append({"key": {"dlc": rq[1]}, "input": {"dlc": rq[1]},
                                   "what": f"is_domainlevel_complement = {r[1]}, but `x is ~y` for every pair is {r[2]}",
                                   "snippet": f"# harness op cx_dlc_direct {rq[1]!r} (harness/impl/views.py)"})
        ctx.cov["correspondence"]["domainlevel-complement-direct(impl)"] = {"cases": len(dl), "constructed": n_dl}
    ctx.cov["rule"] = ("every well-formed structure with non-empty strands up to the tier's length bound (8 quick / 10 "
                       "thorough) for make_loop_index in both modes, one length less for the five object-level views "
                       "(called in a random order); random structures up to 60 strands / depth 100; single-fault damaged "
                       "pair tables; ill-formed and misaligned inputs; non-trivial = distinct results on which model and "
                       "implementation agree")
    ctx.cov["exhaustive"] = False
    ctx.cov["partial"] = read_partial("C08")

    def search(diffs):
        from corr import after_witnesses
        pre = history_witnesses(diffs) + [minimal_history(w) for w in after_witnesses(diffs, canon=canon)]
        rng = ctx.rng
        cases = []
        for d in diffs[:4]:
            op, s = origin.get(enc(d[1][1]), (None, None))
            if s is None:
                continue

            def bad(s2, op=op):
                seq = gs.seq_for(__import__("random").Random(1), s2)
                return disagree_one(req_for(op, s2, seq=seq) if op == "cx_views" else req_for(op, s2), canon=canon)
            if bad(s):
                s = shrink(s, bad, lc.shrink_struct, budget=80)
            cases.append({"s": s, "seq": gs.seq_for(rng, s)})
            if op == "cx_views":
                cases.append({"s": s, "seq": d[1][1][0]})
        cases += [{"s": s, "seq": gs.seq_for(rng, s, complementary=rng.random() < 0.7)} for s in small if len(s) <= 8]
        cases += [{"s": s, "seq": gs.seq_for(rng, s)} for s in big[:300]]
        out = run_oracle("c08.py", {"cases": cases})
        found = []
        for f in out["failures"][:10]:
            found.append({"key": {"s": f["s"]}, "input": {"s": f["s"], "seq": f["seq"]}, "what": f["what"],
                          "snippet": snippet(f["s"], f["seq"])})
        return pre + direct + found

    if direct and res["ok"] and runner.ok and not diffs:
        for f in direct[:10]:
            ctx.violation("counterexample", f)
        return
    conclude(ctx, res, runner, diffs, search)


def snippet(s, seq):
    return ("from dsdobjects.complex_utils import make_pair_table, make_loop_index\n"
            "from dsdobjects.base_classes import DomainS, ComplexS\n"
            f"pt = make_pair_table({s!r})\n"
            "print(make_loop_index(pt, components=True))\n"
            "try: print(make_loop_index(pt))\n"
            "except Exception as e: print(type(e).__name__)\n"
            f"seq = {seq!r}\n"
            "d = {}\n"
            "for n in seq:\n"
            "    if n != '+':\n"
            "        b = n.rstrip('*'); d[b] = DomainS(b, 7); d[b + '*'] = DomainS(b + '*', 7)\n"
            f"c = ComplexS([d.get(n, n) for n in seq], list({s!r}))\n"
            "print(c.is_connected, c.is_domainlevel_complement)\n"
            "print(c.exterior_domains, c.enclosed_domains)\n")


def read_partial(pid):
    """full statements kept as `Definition ..._full : Prop` in the proof files"""
    import os, re
    from common import COQ
    out = []
    d = os.path.join(COQ, "theories", "Proofs")
    for fn in sorted(os.listdir(d)):
        if fn.endswith(".v") and (fn.startswith("Loops") or fn.startswith("Split")):
            text = open(os.path.join(d, fn)).read()
            for m in re.finditer(r"\(\*\s*" + pid + r"\s+partial\s*\*\)\s*Definition\s+([A-Za-z0-9_']+_full)\s*:\s*Prop\s*:=(.*?)\.\s*\n", text, flags=re.S):
                out.append(m.group(1) + " := " + " ".join(m.group(2).split()))
    return out


def replay(data):
    inp = data.get("input")
    if not inp:
        print("replay file names a broken proof/correspondence link only:", json.dumps(data.get("broken_links"))[:2000])
        return 1
    if isinstance(inp, dict) and "dlc" in inp:
        from common import run_impl
        r = run_impl([("cx_dlc_direct", inp["dlc"])])[0]
        print(r)
        return 0 if (isinstance(r, list) and (r[0] != "ok" or r[1] == r[2])) else 1
    if isinstance(inp, dict) and "after" in inp:
        from common import run_impl
        name, earlier, args = inp["after"]
        a, b = run_impl([(name, args)], jobs=1)[0], run_impl([("after", inp["after"])], jobs=1)[0]
        print("first call:", a, "| after earlier calls:", b)
        return 1 if canon(name, a) != canon(name, b) else 0
    if isinstance(inp, dict) and "history" in inp:
        from common import run_impl
        r = run_impl([("c03_fresh_compare", inp["history"])])[0]
        print(r)
        return 1 if r else 0
    out = run_oracle("c08.py", {"cases": [inp]})
    print(json.dumps(out))
    return 1 if out["failures"] else 0
