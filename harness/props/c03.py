"""C03 — a complex's views always describe its current rotation (turns)."""
import json
from common import prove, ensure_model_runner, run_impl, Err
from corr import correspond
from flow import conclude
import gen_structs as gs
import gen_pil

Q0 = ["turns", "sequence", "structure", "kernel_string", "size", "strand_table", "pair_table", "exterior_domains",
      "enclosed_domains", "is_connected", "rotate", "rotate_pt", "canonical_form"]


def history(rng, s, length):
    n = s.count("+") + 1
    ops = []
    for _ in range(length):
        k = rng.random()
        if k < 0.3:
            ops.append(["set_turns", rng.randrange(-2 * n, 2 * n + 1)])
        elif k < 0.7:
            ops.append([rng.choice(Q0)])
        else:
            which = rng.choice(["strand_length", "get_domain", "get_paired_loc", "get_loop_index"])
            if which == "strand_length":
                ops.append([which, rng.randrange(0, n + 1)])
            else:
                lo = -1 if which == "get_paired_loc" else 0
                ops.append([which, [rng.randrange(lo, n + 1), rng.randrange(lo, 4)]])
    return ops


def balanced(L):
    """all dot-parens strings of length L (every bracket matched)"""
    if L == 0:
        return [""]
    out = ["." + r for r in balanced(L - 1)]
    for k in range(L - 1):
        out += ["(" + a + ")" + b for a in balanced(k) for b in balanced(L - 2 - k)]
    return out


def with_breaks(flat, lengths):
    out, k = [], 0
    for l in lengths:
        out.append(flat[k:k + l]); k += l
    return "+".join(out)


def random_balanced(rng, L):
    out, open_ = [], []
    for i in range(L):
        k = rng.random()
        if k < 0.35:
            open_.append(i); out.append("(")
        elif k < 0.7 and open_:
            open_.pop(); out.append(")")
        else:
            out.append(".")
    for i in open_:
        out[i] = "."
    return "".join(out)


UNITS = [([1], 2), ([1], 3), ([1], 4), ([2], 2), ([2], 3), ([3], 2), ([1, 1], 2), ([1, 2], 2), ([2, 1], 2)]
NAMES4 = ("a", "b", "a*", "b*")


def unit_names(rng, unit, distinct=True):
    """names of one period of the strand order; the strands of one period differ from each other when `distinct`"""
    while True:
        strands = [[rng.choice(NAMES4) for _ in range(l)] for l in unit]
        if not distinct or len({tuple(x) for x in strands}) == len(strands):
            return strands


def periodic_seq(strands, k):
    seq = []
    for _ in range(k):
        for x in strands:
            seq += (["+"] if seq else []) + list(x)
    return seq


def periodic_histories(rng, quick):
    """complexes whose strand order is periodic (homo-dimers, -trimers, A+B+A+B): a turn by one period leaves the sequence as
    it is and changes the structure, so data derived from the sequence and data derived from the structure go out of date
    independently.  Every balanced structure over the layout; each lazily computed view is populated before the assignment and
    all of them are read after it.  The dual (structure invariant under the turn, sequence not) is the same layout with
    unrelated names."""
    lazy = ["exterior_domains", "enclosed_domains", "pair_table", "strand_table", "rotate_pt", "is_connected"]
    after = [["exterior_domains"], ["enclosed_domains"], ["pair_table"], ["strand_table"], ["kernel_string"]]
    reqs = []
    for unit, k in UNITS:
        lengths = unit * k
        n, p = len(lengths), len(unit)
        for flat in balanced(sum(lengths)):
            s = with_breaks(flat, lengths)
            for variant in range(2):
                if variant == 0:
                    sq = periodic_seq(unit_names(rng, unit), k)
                elif quick and rng.random() < 0.5:
                    continue
                else:
                    sq = gs.seq_for(rng, s, names=("a", "b"), complementary=rng.random() < 0.5)
                firsts = [[[q]] for q in lazy] + [[], [["exterior_domains"], ["pair_table"], ["strand_table"]]]
                if quick:
                    firsts = rng.sample(firsts, 2)
                for first in firsts:
                    v = rng.choice([p, -p, 1, n - 1, n + p])
                    loc = [rng.randrange(0, n), rng.randrange(0, max(unit))]
                    ops = first + [["set_turns", v]] + after + [["get_paired_loc", loc], ["get_loop_index", loc]]
                    if rng.random() < 0.5:      # a second assignment after everything has been populated in the new rotation
                        ops += [["set_turns", rng.choice([0, p, 1, -1])]] + rng.sample(after, 3) + [["get_paired_loc", loc]]
                    reqs.append(("c03_history", [sq, list(s), ops]))
    # larger periodic complexes with random histories
    for _ in range(300 if quick else 6000):
        unit = [rng.randrange(1, 5) for _ in range(rng.choice([1, 1, 2, 3]))]
        k = rng.choice([2, 2, 3, 4])
        s = with_breaks(random_balanced(rng, sum(unit) * k), unit * k)
        sq = periodic_seq(unit_names(rng, unit, distinct=False), k)
        reqs.append(("c03_history", [sq, list(s), history(rng, s, rng.randrange(2, 9))]))
    return reqs


GEN_OPS = ("gen_open", "gen_next")


def observed(ops):
    """the steps of a history that have an observation (steps of suspended generators have none)"""
    return [o for o in ops if o[0] not in GEN_OPS]


def suspended_generator_histories(rng, structs, quick):
    """rotate() / rotate_pt() generators of the object that are only partially consumed: created (with or without an explicit
    turn count), stepped a few times, left suspended across assignments of `turns` and queries, resumed afterwards, several of
    them interleaved.  What a generator suspended across an assignment yields is not specified, but nothing it does may
    reach the object: afterwards every `turns = v` (each v of one full turn, in random order) still gives the v-th rotation
    of the canonical form and all views describe it.  Complexes of two to six strands."""
    multi = [s for s in structs if s.count("+") >= 2]
    multi += ["(+)(+)(+)", "((+)(+)(+))", "(+(+)(+))", ".(+.(+)+)", "(.+)(+.)(+)", "(+)(+)(+)(+)", "((+)+(+)(+))", ".+.+.+.+."]
    reqs = []
    for _ in range(700 if quick else 8000):
        r = rng.random()
        s = rng.choice(multi) if r < 0.8 else gs.random_wf(rng, rng.choice([8, 14]), p_break=0.3)
        sq = gs.seq_for(rng, s, names=("a", "b", "c"), complementary=rng.random() < 0.7)
        n = s.count("+") + 1
        kinds = ["rotate", "rotate_pt"]
        ops = []
        if rng.random() < 0.5:
            ops.append(["set_turns", rng.randrange(-n, 2 * n)])
        slots = rng.choice([1, 1, 2])
        for g in range(slots):
            ops.append(["gen_open", g, rng.choice(kinds), rng.choice([None, None, n, n + 1, 2 * n, max(n - 1, 1)])])
            if rng.random() < 0.8:
                ops.append(["gen_next", g, rng.randrange(1, n + 1)])
        for _ in range(rng.randrange(1, 5)):
            k = rng.random()
            if k < 0.45:
                ops.append(["set_turns", rng.randrange(-n, 2 * n)])
            elif k < 0.85:
                ops.append(["gen_next", rng.randrange(slots), rng.choice([1, 1, 2, n, 2 * n + 1])])
            elif k < 0.93:
                ops.append(["gen_open", rng.randrange(slots), rng.choice(kinds), None])
            else:
                ops.append([rng.choice(Q0)])
        if rng.random() < 0.7:                                   # let the loops finish
            for g in range(slots):
                ops.append(["gen_next", g, 2 * n + 2])
        sweep = list(range(n))
        rng.shuffle(sweep)
        for v in sweep + [rng.randrange(-n, 2 * n)]:
            ops += [["set_turns", v], ["turns"], ["sequence"], ["structure"],
                    [rng.choice(["kernel_string", "strand_table", "pair_table", "rotate", "rotate_pt", "exterior_domains"])]]
            if rng.random() < 0.3:
                ops.append(["gen_next", rng.randrange(slots), 1])
        reqs.append(("c03_history", [sq, list(s), ops]))
    return reqs


def oracle(seq, st, ops, obs):
    """views recomputed from the rotation the complex must currently be in"""
    ops = observed(ops)
    rots = gen_pil.rotations(seq, st)
    canon = gen_pil.canon(seq, st)
    n = len(rots)
    # index of the canonical rotation; for symmetric complexes any index with the same description works
    cur = 0                      # rotation index relative to the input
    turns = None
    for op, v in zip(ops, obs):
        if isinstance(v, Err) and v.kind == "IdentityChanged":
            return "identity, name or canonical form changed"
        if op[0] == "set_turns":
            if isinstance(v, Err):
                return f"turns = {op[1]} raised {v.kind}"
            turns = op[1] % n
            continue
        if op[0] == "turns" and turns is not None and v != turns:
            return f"turns reads {v} after assigning {turns}"
        if turns is not None:
            # after an assignment the representation must be the turns-th rotation of the canonical form
            want = None
            for r in rots:
                if (tuple(r[0]), tuple(r[1])) == canon:
                    base = rots.index(r)
                    want = rots[(base + turns) % n]
                    break
            if op[0] == "sequence" and v != want[0]:
                return f"sequence {v} is not rotation {turns} of the canonical form"
            if op[0] == "structure" and v != want[1]:
                return f"structure {v} is not rotation {turns} of the canonical form"
            cur_desc = want
        else:
            cur_desc = rots[0]
        sq, ss = cur_desc
        strands = [x.split(" ") for x in " ".join(sq).split(" + ")]
        if op[0] == "strand_table" and v != strands:
            return f"strand_table {v} does not describe the current sequence {sq}"
        if op[0] == "size" and v != n:
            return f"size {v}"
        if op[0] == "pair_table" and not isinstance(v, Err):
            flat, k = {}, 0
            for si, x in enumerate(strands):
                for di in range(len(x)):
                    flat[k] = [si, di]; k += 1
                k += 1
            want_pt = [[None] * len(x) for x in strands]
            for i, j in gs.pair_positions("".join(ss)):
                a, b = flat[i], flat[j]
                want_pt[a[0]][a[1]] = b
                want_pt[b[0]][b[1]] = a
            if v != want_pt:
                return f"pair_table {v} does not describe the current structure {''.join(ss)}"
        if op[0] == "kernel_string" and v != gen_pil.kernel_string(sq, ss):
            return f"kernel_string {v!r} does not describe the current rotation"
        if op[0] == "get_domain" and not isinstance(v, Err):
            l = op[1]
            if l[0] >= len(strands) or l[1] >= len(strands[l[0]]):
                return f"get_domain{tuple(l)} = {v} although the current rotation has no such locus"
            if v != strands[l[0]][l[1]]:
                return f"get_domain{tuple(l)} = {v}"
        if op[0] == "rotate" and not isinstance(v, Err):
            base = rots.index(cur_desc) if cur_desc in rots else None
            if [list(x) for x in v[0]] != [list(sq), list(ss)] or len(v) != n:
                return "rotate() does not start with the current representation or does not yield n rotations"
    return None


def run(ctx):
    rng, quick = ctx.rng, ctx.tier == "quick"
    res = prove(ctx)
    runner = ensure_model_runner()
    diffs, found = [], []
    if runner.ok:
        structs = list(gs.all_wf(6 if quick else 7))
        reqs = []
        for _ in range(2500 if quick else 40000):
            s = rng.choice(structs) if rng.random() < 0.9 else gs.random_wf(rng, rng.choice([12, 40]), p_break=0.25)
            sq = gs.seq_for(rng, s, names=("a", "b"))
            reqs.append(("c03_history", [sq, list(s), history(rng, s, rng.randrange(1, 7))]))
        # exhaustive interleavings (query, set, query) over a small complex family
        small = [s for s in structs if len(s) <= 5 and "+" in s][:40]
        # complexes with unpaired positions inside a closed hairpin (non-empty enclosed_domains) on a strand that moves
        small += ["(.(+)).", "((.)+)", "(+(.))", "(.(+).)", "((.)(+))", "(+)(.)", "(.)(+)", "(.(+)+).", "(+(.)+)", "(.)+.", ".+(.)"]
        for s in small:
            sq = gs.seq_for(rng, s, names=("a", "b"))
            n = s.count("+") + 1
            for q1 in ["pair_table", "strand_table", "exterior_domains", "enclosed_domains", "rotate_pt", "is_connected", None]:
                for v in (-1, 1, n + 1):
                    for q2 in ["pair_table", "strand_table", "exterior_domains", "enclosed_domains", "sequence",
                               "kernel_string", "rotate_pt", "rotate", "is_connected"]:
                        ops = ([[q1]] if q1 else []) + [["set_turns", v], [q2], ["get_loop_index", [0, 0]], ["get_paired_loc", [0, 0]]]
                        reqs.append(("c03_history", [sq, list(s), ops]))
        # the same query several times within one rotation (lazily computed lists that may legitimately be empty): complexes
        # without unpaired exterior domains but with enclosed ones, and the other way round
        for s in ["((.)+)", "(.(+))", "((.)(+))", "(.)", "(+)", "((.)+(.))", "(.+)", "(+.)", "((+)(.))", ".(+).", "(.)+(.)"]:
            sq = gs.seq_for(rng, s, names=("a", "b"))
            n = s.count("+") + 1
            for first in (["exterior_domains"], ["enclosed_domains"]):
                for v in (None, 1, n):
                    ops = ([["set_turns", v]] if v is not None else []) + [first, ["exterior_domains"], ["enclosed_domains"], ["exterior_domains"],
                                                                           ["enclosed_domains"], ["enclosed_domains"], ["exterior_domains"]]
                    reqs.append(("c03_history", [sq, list(s), ops]))
        diffs += correspond(ctx, "view-histories", reqs)
        # the direct statement on the implementation: every view equals that of a fresh complex at the same rotation
        probe = reqs[-6000:] if len(reqs) > 6000 else reqs
        for rq, r in zip(probe, run_impl([("c03_fresh_compare", q[1]) for q in probe])):
            if isinstance(r, Err) or r:
                found.append({"key": {"seq": rq[1][0], "struct": "".join(rq[1][1]), "ops": rq[1][2]}, "input": rq[1],
                              "what": str(r), "snippet": f"# harness op c03_fresh_compare {rq[1]!r} (harness/impl/views.py)"})
        # explicit turn counts of the object's generators (beyond one full turn too) at any point of a history: rotate(t) and
        # rotate_pt(t) describe the same rotations, starting with the current one (direct statement, no model request)
        probe2 = []
        for rq in rng.sample(reqs, min(len(reqs), 600 if quick else 6000)):
            sq_, st_, ops_ = rq[1]
            n_ = st_.count("+") + 1
            extra = [[rng.choice(["rotate_t", "rotate_pt_t"]), rng.choice([0, 1, n_ - 1, n_, n_ + 1, n_ + 2, 2 * n_, 2 * n_ + 1, 3 * n_ + 2])] for _ in range(2)]
            if rng.random() < 0.5:
                extra[rng.randrange(2)] = ["split"]          # consuming split() is a read-only query of the object
            k_ = rng.randrange(len(ops_) + 1)
            probe2.append(("c03_fresh_compare", [sq_, st_, ops_[:k_] + extra[:1] + ops_[k_:] + extra[1:]]))
        for rq, r in zip(probe2, run_impl(probe2)):
            if isinstance(r, Err) or r:
                found.append({"key": {"seq": rq[1][0], "struct": "".join(rq[1][1]), "ops": rq[1][2]}, "input": rq[1],
                              "what": str(r), "snippet": f"# harness op c03_fresh_compare {rq[1]!r} (harness/impl/views.py)"})
        # periodic strand orders (identical strands): sequence and structure change independently under a turn
        preqs = periodic_histories(rng, quick)
        diffs += correspond(ctx, "view-histories-periodic", preqs)
        for rq, r in zip(preqs, run_impl([("c03_fresh_compare", q[1]) for q in preqs])):
            if isinstance(r, Err) or r:
                found.append({"key": {"seq": rq[1][0], "struct": "".join(rq[1][1]), "ops": rq[1][2]}, "input": rq[1],
                              "what": str(r), "snippet": f"# harness op c03_fresh_compare {rq[1]!r} (harness/impl/views.py)"})
        # the argument lists stay the caller's: edits of them after construction do not reach the object (drawn last)
        creqs = []
        for _ in range(120 if quick else 3000):
            s_ = rng.choice(structs) if rng.random() < 0.8 else gs.random_wf(rng, 12, p_break=0.25)
            sq_ = gs.seq_for(rng, s_, names=("a", "b", "c"))
            as_strand = rng.random() < 0.25
            edits = [[0 if as_strand else rng.randrange(2), rng.choice(["pop", "pop0", "clear", "reverse", "append", "swap"])]
                     for _ in range(rng.randrange(1, 4))]
            creqs.append(("c03_caller_lists", [[x for x in sq_ if x != "+"] if as_strand else sq_, list(s_), edits, as_strand]))
        for rq, r in zip(creqs, run_impl(creqs)):
            if isinstance(r, Err):
                if r.kind not in ("SingletonError", "ObjectInitError"):
                    found.append({"key": {"caller_lists": rq[1]}, "input": {"caller_lists": rq[1]}, "what": f"raised {r.kind}",
                                  "snippet": f"# harness op c03_caller_lists {rq[1]!r} (harness/impl/views.py)"})
            elif r:
                kind_ = "StrandS(seq)" if rq[1][3] else "ComplexS(seq, struct)"
                found.append({"key": {"caller_lists": rq[1]}, "input": {"caller_lists": rq[1]},
                              "what": f"{kind_} follows the caller's own argument list: {r[0][0]}: shows {r[0][1]} instead of {r[0][2]}",
                              "snippet": "from dsdobjects.base_classes import DomainS, ComplexS\na=DomainS('a',5); b=DomainS('b',5)\n"
                                         "seq=[a,b]; st=list('..'); c=ComplexS(seq, st, 'X'); seq.pop(); st.pop()\n"
                                         "print(list(map(str,c.sequence)), list(c.structure), c.canonical_form)   # harness op c03_caller_lists "
                                         + repr(rq[1])})
        ctx.cov["correspondence"]["caller-argument-lists(impl)"] = {"cases": len(creqs)}
        # partially consumed rotate()/rotate_pt() generators suspended across assignments: the model is asked the history
        # without the generator steps, the implementation the one with them
        greqs = suspended_generator_histories(rng, structs, quick)
        diffs += correspond(ctx, "view-histories-suspended-generators",
                            [(q[0], [q[1][0], q[1][1], observed(q[1][2])]) for q in greqs], impl_reqs=greqs)
        for rq, r in zip(greqs, run_impl([("c03_fresh_compare", q[1]) for q in greqs])):
            if isinstance(r, Err) or r:
                found.append({"key": {"seq": rq[1][0], "struct": "".join(rq[1][1]), "ops": rq[1][2]}, "input": rq[1],
                              "what": str(r), "snippet": f"# harness op c03_fresh_compare {rq[1]!r} (harness/impl/views.py)"})
        impl = run_impl(reqs[:3000])
        for rq, r in zip(reqs[:3000], impl):
            if isinstance(r, Err):
                continue
            w = oracle(rq[1][0], rq[1][1], rq[1][2], r)
            if w:
                found.append({"key": {"seq": rq[1][0], "struct": "".join(rq[1][1]), "ops": rq[1][2]}, "input": rq[1], "what": w,
                              "snippet": f"# harness op c03_history {rq[1]!r} (harness/impl/views.py)"})
    ctx.cov["rule"] = ("random histories of turns assignments (any integer in [-2n, 2n]) interleaved with every public view, on all "
                       "well-formed structures up to the tier's bound and random larger ones; plus every (query, assign, query) "
                       "interleaving on a family of small multi-stranded complexes; every observation compared with the model; "
                       "non-trivial = distinct agreed observation lists")
    if found and res["ok"] and not diffs:
        for f in found[:10]:
            ctx.violation("counterexample", f)
        return
    from corr import history_witnesses
    conclude(ctx, res, runner, diffs, lambda d: found + history_witnesses(d))


def replay(data):
    inp = data.get("input")
    if not inp:
        print(json.dumps(data.get("broken_links"))[:2000]); return 1
    if isinstance(inp, dict) and "caller_lists" in inp:
        r = run_impl([("c03_caller_lists", inp["caller_lists"])])[0]
        print(r)
        return 1 if (isinstance(r, Err) or r) else 0
    if isinstance(inp, dict):
        inp = inp.get("history")
    r = run_impl([("c03_history", inp)])[0]
    print(r)
    w = None if isinstance(r, Err) else oracle(inp[0], inp[1], inp[2], r)
    print(w)
    d = run_impl([("c03_fresh_compare", inp)])[0]      # the direct statement: every view equals that of a fresh complex
    print(d)
    return 1 if (w or d) else 0
