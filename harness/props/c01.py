"""C01 — singleton identity: one live object per name and per canonical form."""
import reghist as rh
from reghist import D, C, S, M, R, CA

PARTIAL = [
    "reading PIL text (read_pil) is not part of the histories",
    "a held exception object (SingletonError.existing, traceback frames) is not a root of the model: the "
    "implementation runner drops the caught error before it observes",
    "name_only for domains at operation level is proved for names with an unstarred base (C01_name_only_domain); the "
    "unguarded statement name_only_domain_full is refuted (C01_name_only_domain_refuted_for_double_star: "
    "DomainS('a', 5); DomainS('a**') creates a** through a temporary a*, replayed on the implementation)",
    "'unchanged' for refused requests is equality up to dead temporaries appended to the heap (Junk): same slots, same "
    "registries (as lists), same live objects; ids of dead temporaries are consumed",
    "an object whose name is the string '+' used as a sequence element is outside the model (it is treated as a strand break)",
]

SETUP_DOMS = [rh.dom(0, D, "a", 5), rh.dom(1, D, "b", 5)]
X1 = (["a", "+", "a"], ".+.")
X2 = (["a", "+", "a", "+", "a"], "(+)+.")
X3 = (["a", "b", "+", "b", "+", "a"], "((+)+)")
SLOT = {"a": 0, "b": 1}


def cplx_variants():
    out = []
    for seq, sst in (X1, X2, X3):
        for s2, t2 in rh.rotations(seq, list(sst)):
            v = ([SLOT.get(x, x) for x in s2], "".join(t2))
            if v not in out:
                out.append(v)
    return out


def batches(ctx):
    rng, quick = ctx.rng, ctx.tier == "quick"
    depth = 3 if quick else 4
    out = []
    # DomainS
    a = rh.dom_alphabet(D, names=("a", "a*", None), lengths=(None, 5, 9), dtypes=(None,))
    out.append((f"DomainS/exhaustive-depth-{depth}", rh.all_histories(a, depth), 3, [D]))
    # ComplexS: three complexes (one rotationally symmetric, one with identical strands) in every rotation
    cv = cplx_variants()
    a = [rh.cplx(2, C, s, t, n) for s, t in cv for n in (None, "c1", "X")]
    a += [rh.cplx(3, C, s, t, None) for s, t in cv]
    a += [rh.cplx(3, C, None, None, n) for n in ("c1", "X")] + [rh.drop(2), rh.drop(3)]
    hs = [SETUP_DOMS + h for h in rh.all_histories(a, depth if quick else 3)]
    out.append(("ComplexS/exhaustive-depth-3", hs, 4, [C], len(SETUP_DOMS)))
    # StrandS
    a = [rh.strand(d, S, s, n) for d in (2, 3) for s in ([0], [0, 1]) for n in (None, "s1", "X")]
    a += [rh.strand(3, S, None, n) for n in ("s1", "X")] + [rh.drop(2), rh.drop(3)]
    hs = [SETUP_DOMS + h for h in rh.all_histories(a, depth)]
    out.append((f"StrandS/exhaustive-depth-{depth}", hs, 4, [S], len(SETUP_DOMS)))
    # MacrostateS / ReactionS over a fixed population: A = a+b, B = a, and A again in a subclass (equal canonical form)
    setup = SETUP_DOMS + [rh.cplx(2, C, [0, "+", 1], ".+.", "A"), rh.cplx(3, C, [0], ".", "B"),
                          rh.cplx(4, CA, [0, "+", 1], ".+.", "A")]
    mem = ([2], [3], [2, 3], [3, 2], [4, 3])
    a = [rh.macro(5, M, m, n) for m in mem for n in (None, "A", "B")]
    a += [rh.macro(6, M, m, None) for m in mem] + [rh.macro(6, M, None, n) for n in ("A", "B")]
    a += [rh.drop(5), rh.drop(6), rh.drop(2)]
    hs = [setup + h for h in rh.all_histories(a, 3)]
    out.append(("MacrostateS/exhaustive-depth-3", hs, 7, [M, C], len(setup)))
    rp = (([2], [3]), ([3], [2]), ([2, 3], [2]), ([3, 2], [2]), ([], [4]))
    a = [rh.rxn(5, R, r, p, t, n) for r, p in rp for t in ("open", "bind21") for n in (None, "r1")]
    a += [rh.rxn(6, R, r, p, "open", None) for r, p in rp] + [rh.rxn(6, R, None, None, None, "r1")]
    a += [rh.drop(5), rh.drop(6), rh.drop(3)]
    hs = [setup + h for h in rh.all_histories(a, 3)]
    out.append(("ReactionS/exhaustive-depth-3", hs, 7, [R, C], len(setup)))
    # long random histories, all classes, subclasses mixed in
    n, ln = (300, 40) if quick else (5000, 100)
    rnd = [rh.random_history(rng, ln) for _ in range(n)]
    out.append(("all-classes/random", rnd, rh.NSLOTS, rh.ALL))
    # (no new random draws below this line)
    # one domain name and length live in three classes of the family at once (base, subclass, sibling): complements taken
    # in every class from every class's object, look-ups of the complementary name, drops -- each class has its own memory
    fam = (D, rh.DA, rh.DB)
    setup3 = [rh.dom(k, c, "a", 5) for k, c in enumerate(fam)]
    a = [rh.inv(3 + i, j) for i in range(3) for j in range(3)] + [rh.dom(3 + i, c, "a*") for i, c in enumerate(fam)]
    a += [rh.drop(k) for k in range(6)]
    hs = [setup3 + h for h in rh.all_histories(a, 3)]
    out.append(("DomainS-family/one-name-in-three-classes/exhaustive-depth-3", hs, 6, list(fam), len(setup3)))
    # reading leaves no trace: the same model answers when every read-only accessor of every held object is read after
    # every operation (zoo variant 3 of impl/registry.py)
    cs = next(b for b in out if b[0].startswith("ComplexS/"))
    step = 12 if quick else 2
    out.append(("ComplexS/read-only-accessors-after-every-step", cs[1][::step], 4, [C], len(SETUP_DOMS), [rh.READS_VARIANT]))
    ms = next(b for b in out if b[0].startswith("MacrostateS/"))
    out.append(("MacrostateS/read-only-accessors-after-every-step", ms[1][::2 * step], 7, [M, C], ms[4], [rh.READS_VARIANT]))
    out.append(("all-classes/random/read-only-accessors-after-every-step", rnd[::3], rh.NSLOTS, rh.ALL, 0, [rh.READS_VARIANT]))
    return out


RULE = ("per class every history of depth 3 (quick) / 4 (thorough; 3 for containers) over a small alphabet: names x lengths, "
        "three complexes in every rotation (rotationally symmetric, identical strands), named/unnamed/conflicting names, "
        "name look-ups, ~, drops, macrostates and reactions over a fixed population in every member order incl. an equal "
        "complex of a subclass, the members / reactants / products handed over as tuple, list and deque in turn (by position "
        "in the history, so every member order meets every container); one domain name and length live in three classes of the "
        "family with ~ taken across them; a sample of the complex / macrostate histories and of the random ones with every "
        "read-only accessor of every held object read after every operation (same model answers); plus random histories of length 40/100 over all 25 classes of the zoo; compared after every "
        "step: outcome kind, existing, slot identities, both registries, attributes, counters, weakref liveness; distinct = "
        "distinct final observable states on which model and implementation agree")


def run(ctx):
    rh.run_check(ctx, "C01", batches, RULE, partial=PARTIAL)


def replay(data):
    return rh.replay("C01", data)
