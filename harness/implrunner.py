"""Implementation runner: executes requests against the dsdobjects package found
on PYTHONPATH (the harness sets PYTHONPATH=$VERIF_REPO).  One request per line
"<op> <arg>", one result per line, in the value text form of valfmt.py.
Exceptions become Err(kind); messages are never compared."""
import sys, os, warnings, logging
warnings.simplefilter("ignore")
logging.disable(logging.CRITICAL)
sys.path.insert(0, os.path.dirname(os.path.abspath(__file__)))
from valfmt import enc, dec, Err

OPS = {}

def op(name):
    def deco(f):
        OPS[name] = f
        return f
    return deco

@op("after")
def _after(a):
    """[name, [earlier args ...], args]: the operation `name` on `args` after the same operation was called on each of the
    earlier arguments in this process (failures of the earlier calls ignored).  The answer must be that of a first call:
    nothing may survive between independent calls."""
    name, earlier, args = a
    for e in earlier:
        try:
            if isinstance(e, list) and len(e) == 3 and e[0] == "@op":       # another operation: ["@op", name, args]
                OPS[e[1]](e[2])
                continue
            OPS[name](e)
        except RecursionError:
            pass
        except Exception:
            pass
    return OPS[name](args)


def load_families():
    import importlib
    here = os.path.join(os.path.dirname(os.path.abspath(__file__)), "impl")
    for fn in sorted(os.listdir(here)):
        if fn.endswith(".py") and not fn.startswith("_"):
            m = importlib.import_module("impl." + fn[:-3])
            m.register(op)

def main():
    load_families()
    import dsdobjects
    repo = os.environ.get("VERIF_REPO", "/repo")
    assert os.path.abspath(dsdobjects.__file__).startswith(os.path.abspath(repo) + os.sep), \
        (dsdobjects.__file__, repo)
    out = sys.stdout
    for line in sys.stdin:
        line = line.strip()
        if not line:
            continue
        sp = line.index(" ")
        name = dec(line[:sp])
        arg = dec(line[sp + 1:])
        try:
            res = OPS[name](arg)
        except RecursionError:
            res = Err("RecursionError")
        except BaseException as e:      # noqa: every failure is an observable outcome
            if isinstance(e, (KeyboardInterrupt, SystemExit)):
                raise
            res = Err(type(e).__name__)
        try:
            line = enc(res)
        except Exception:                # a result the wire format cannot carry (e.g. library objects inside a key)
            line = enc(Err("UnencodableResult"))
        out.write(line + "\n")
    out.flush()

if __name__ == "__main__":
    main()
