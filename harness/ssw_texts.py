"""Generators for C19: syntax trees of the seesaw dialect, their token trees, their
rendering under a layout, and single-fault mutations (argument deletion, insertion,
kind swap, negative concentration, input bound to a fluorophore).

AST:  ("num", s) | ("id", s) | ("f",) | ("set", [ast]) | ("call", name, [ast])   name[ a, b, ... ]
      | ("conc", s, neg)   s*c      | ("io", kw, x, value)                        kw(x) = value
Every token may be surrounded by blanks; numbers are single tokens."""
import string
import pil_texts as pt

KINDS = ["INPUT", "OUTPUT", "seesaw", "conc-wire", "conc-gate", "conc-threshold",
         "reporter", "inputfanout", "seesawOR", "seesawAND"]
IDCH = string.ascii_letters + string.digits + "_-"


def num(rng):
    return ("num", pt.digits(rng))


def ident(rng):
    if rng.random() < 0.25:
        return ("id", rng.choice(["f", "w", "g", "th", "c", "x1", "Fluor", "INPUT", "conc", "e", "a-b", "y_", "seesaw"]))
    return ("id", rng.choice(string.ascii_letters) + "".join(rng.choice(IDCH) for _ in range(rng.choice([0, 1, 2, 6]))))


def wire(rng):
    return ("call", "w", [num(rng), num(rng) if rng.random() < 0.7 else ("f",)])


def nset(rng, size, allow_f=False):
    n = rng.randint(1, max(1, size))
    return ("set", [(("f",) if allow_f and rng.random() < 0.3 else num(rng)) for _ in range(n)])


def conc(rng):
    return ("conc", pt.gorf(rng), False)


def gen_ast(rng, kind, size=3):
    if kind == "INPUT":
        return ("io", "INPUT", num(rng) if rng.random() < 0.5 else ident(rng), wire(rng))
    if kind == "OUTPUT":
        return ("io", "OUTPUT", num(rng) if rng.random() < 0.5 else ident(rng),
                wire(rng) if rng.random() < 0.5 else ("call", "Fluor", [num(rng)]))
    if kind == "seesaw":
        return ("call", "seesaw", [num(rng), nset(rng, size), nset(rng, size, True)])
    if kind == "conc-wire":
        return ("call", "conc", [wire(rng), conc(rng)])
    if kind in ("conc-gate", "conc-threshold"):
        name = "g" if kind == "conc-gate" else "th"
        args = [wire(rng), num(rng)]
        if rng.random() < 0.5:
            args.reverse()
        return ("call", "conc", [("call", name, args), conc(rng)])
    if kind == "reporter":
        return ("call", "reporter", [num(rng), num(rng)])
    if kind == "inputfanout":
        return ("call", "inputfanout", [num(rng), num(rng), nset(rng, size)])
    if kind in ("seesawOR", "seesawAND"):
        return ("call", kind, [num(rng), num(rng), nset(rng, size), nset(rng, size)])
    raise ValueError(kind)


# ---------------------------------------------------------------- the grammar, as a type checker
def is_num(a):
    return a[0] == "num" and a[1].isdigit() and a[1] != ""


def is_wire(a):
    return a[0] == "call" and a[1] == "w" and len(a[2]) == 2 and is_num(a[2][0]) and (is_num(a[2][1]) or a[2][1] == ("f",))


def is_set(a, allow_f):
    return a[0] == "set" and len(a[1]) >= 1 and all(is_num(x) or (allow_f and x == ("f",)) for x in a[1])


def is_conc(a):
    return a[0] == "conc" and not a[2]


def is_ident(a):
    return a[0] == "id" and a[1][:1] in string.ascii_letters and all(ch in IDCH for ch in a[1])


def valid(a):
    if a[0] == "io":
        _, kw, x, v = a
        if not (is_num(x) or is_ident(x) or x == ("f",)):     # `f` alone is an identifier
            return False
        if kw == "INPUT":
            return is_wire(v)
        return is_wire(v) or (v[0] == "call" and v[1] == "Fluor" and len(v[2]) == 1 and is_num(v[2][0]))
    if a[0] != "call":
        return False
    name, args = a[1], a[2]
    if name == "seesaw":
        return len(args) == 3 and is_num(args[0]) and is_set(args[1], False) and is_set(args[2], True)
    if name == "conc":
        if len(args) != 2 or not is_conc(args[1]):
            return False
        t = args[0]
        if is_wire(t):
            return True
        return (t[0] == "call" and t[1] in ("g", "th") and len(t[2]) == 2 and
                ((is_wire(t[2][0]) and is_num(t[2][1])) or (is_num(t[2][0]) and is_wire(t[2][1]))))
    if name == "reporter":
        return len(args) == 2 and all(is_num(x) for x in args)
    if name == "inputfanout":
        return len(args) == 3 and is_num(args[0]) and is_num(args[1]) and is_set(args[2], False)
    if name in ("seesawOR", "seesawAND"):
        return len(args) == 4 and is_num(args[0]) and is_num(args[1]) and is_set(args[2], False) and is_set(args[3], False)
    return False


# ---------------------------------------------------------------- token tree of a valid AST
def tokens(a):
    """what the grammar's Group structure returns for a valid AST (asList)"""
    if a[0] in ("num", "id"):
        return a[1]
    if a[0] == "f":
        return "f"
    if a[0] == "set":
        return [tokens(x) for x in a[1]]
    if a[0] == "conc":
        return a[1]
    if a[0] == "io":
        return [a[1], [tokens(a[2])], tokens(a[3])]
    name, args = a[1], a[2]
    if name == "Fluor":
        return ["Fluor", tokens(args[0])]
    if name in ("w", "g", "th"):
        return [name, [tokens(x) for x in args]]
    if name == "conc":
        return ["conc", tokens(args[0]), tokens(args[1])]
    return [name, [tokens(x) for x in args]]


# ---------------------------------------------------------------- lexemes
def L(role, text):
    return ("lex", role, text)


SP0 = ("sp", 0)


def lexemes(a):
    if a[0] == "num":
        return [L("num", a[1])]
    if a[0] == "id":
        return [L("id", a[1])]
    if a[0] == "f":
        return [L("f", "f")]
    if a[0] == "conc":
        return [L("num", ("-" if a[2] else "") + a[1]), SP0, L("punct", "*"), SP0, L("punct", "c")]
    if a[0] == "set":
        out = [L("punct", "{")]
        for j, x in enumerate(a[1]):
            out += ([SP0, L("punct", ","), SP0] if j else [SP0]) + lexemes(x)
        return out + [SP0, L("punct", "}")]
    if a[0] == "io":
        return [L("kw", a[1]), SP0, L("punct", "("), SP0] + lexemes(a[2]) + [SP0, L("punct", ")"), SP0,
                                                                            L("punct", "="), SP0] + lexemes(a[3])
    out = [L("kw", a[1]), SP0, L("punct", "[")]
    for j, x in enumerate(a[2]):
        out += ([SP0, L("punct", ","), SP0] if j else [SP0]) + lexemes(x)
    return out + [SP0, L("punct", "]")]


def render(rng, a, eof=False):
    return pt.statement_text(rng, lexemes(a), eof=eof)


# ---------------------------------------------------------------- faults
def subterms(a, path=()):
    yield path, a
    if a[0] == "set":
        for j, x in enumerate(a[1]):
            yield from subterms(x, path + (1, j))
    elif a[0] == "call":
        for j, x in enumerate(a[2]):
            yield from subterms(x, path + (2, j))
    elif a[0] == "io":
        yield from subterms(a[2], path + (2,))
        yield from subterms(a[3], path + (3,))


def replace(a, path, new):
    if not path:
        return new
    a = list(a)
    if len(path) >= 2 and isinstance(a[path[0]], list):
        lst = list(a[path[0]])
        lst[path[1]] = replace(lst[path[1]], path[2:], new)
        a[path[0]] = lst
    else:
        a[path[0]] = replace(a[path[0]], path[1:], new)
    return tuple(a)


def edit_list(a, path, f):
    """apply f to the argument list of the set / call at `path`"""
    node = a
    for p in path:
        node = node[p]
    idx = 1 if node[0] == "set" else 2
    new = list(node)
    new[idx] = f(list(node[idx]))
    return replace(a, path, tuple(new)) if path else tuple(new)


def faults(rng, a):
    """list of (fault name, damaged AST); only ASTs the grammar's type checker refuses"""
    out = []
    subs = list(subterms(a))
    lists = [(p, t) for p, t in subs if t[0] in ("set", "call")]
    # argument deletion / insertion
    for _ in range(2):
        p, t = rng.choice(lists)
        n = len(t[1] if t[0] == "set" else t[2])
        if n:
            j = rng.randrange(n)
            out.append(("delete-argument", edit_list(a, p, lambda l: l[:j] + l[j + 1:])))
        j = rng.randrange(n + 1)
        extra = rng.choice([num(rng), wire(rng), ("f",), nset(rng, 2)])
        out.append(("insert-argument", edit_list(a, p, lambda l: l[:j] + [extra] + l[j:])))
    # kind swap
    for _ in range(3):
        p, t = rng.choice(subs[1:] if len(subs) > 1 else subs)
        if t[0] == "num":
            new = rng.choice([wire(rng), ("f",), nset(rng, 2), ("id", "x"), ("num", "-" + t[1]), ("num", t[1] + ".5")])
        elif t[0] == "set":
            new = rng.choice([num(rng), wire(rng), ("set", [])])
        elif t[0] == "call":
            new = rng.choice([num(rng), nset(rng, 2), ("call", "Fluor", [num(rng)]), ("f",)])
        elif t[0] == "conc":
            new = rng.choice([("conc", t[1], True), num(rng), ("conc", "", False)])
        else:
            new = rng.choice([wire(rng), nset(rng, 2)])
        out.append(("kind-swap" if new[0] != "conc" or not new[2] else "negative-concentration", replace(a, p, new)))
    if a[0] == "io" and a[1] == "INPUT":
        out.append(("input-fluorophore", ("io", "INPUT", a[2], ("call", "Fluor", [num(rng)]))))
    if a[0] == "call" and a[1] == "conc":
        out.append(("negative-concentration", ("call", "conc", [a[2][0], ("conc", a[2][1][1], True)])))
    return [(n, b) for n, b in out if not valid(b)]
