#!/bin/bash
# Build the whole framework from files on disk only (offline): regenerate the
# generated Coq files from /repo, compile every theory / proof / property file,
# extract the model runner and compile the OCaml driver.
set -e
cd "$(dirname "$0")"
export PIP_NO_INDEX=1
/venv/bin/python harness/setup_all.py
