import random, math
from dsdobjects.utils import convert_units
conc={'M': 1, 'mM': 1e-3, 'uM': 1e-6, 'nM': 1e-9, 'pM': 1e-12}
time={'days': 86400, 'hours': 3600, 'min': 60, 's': 1, 'ms': 1e-3, 'us': 1e-6, 'ns': 1e-9}
def me(x):
    x=float(x)
    if x==0: return (0,0)
    m,e=math.frexp(x); return (int(m*2**53), e-53)
rnd=random.Random(1)
cases=[]
for fam in (conc,time):
    us=list(fam)
    for a in us:
        for b in us:
            for _ in range(6):
                v=rnd.choice([rnd.uniform(0,10), rnd.uniform(0,1)*10**rnd.randint(-30,30), float(rnd.randint(1,10**6))])
                r=convert_units(v,a,b)
                cases.append((me(v),me(fam[a]),me(fam[b]),me(r)))
with open('C.v','w') as f:
    f.write('From Coq Require Import ZArith List PrimFloat Uint63 FloatOps.\nImport ListNotations.\nOpen Scope Z_scope.\n')
    f.write('Definition of_me (p : Z*Z) : float := Z.ldexp (of_uint63 (Uint63.of_Z (fst p))) (snd p).\n')
    f.write('Definition to_me (f : float) : Z*Z := if PrimFloat.eqb f zero then (0,0) else let (m, e) := Z.frexp f in (Uint63.to_Z (normfr_mantissa m), e - 53).\n')
    f.write('Definition chk (c : (Z*Z)*(Z*Z)*(Z*Z)*(Z*Z)) : bool := let \'(v,a,b,r) := c in let x := to_me ((of_me v * of_me a / of_me b)%float) in Z.eqb (fst x) (fst r) && Z.eqb (snd x) (snd r).\n')
    f.write('Definition cases := [\n'+';\n'.join('((%d,%d),(%d,%d),(%d,%d),(%d,%d))'%(c[0]+c[1]+c[2]+c[3]) for c in cases)+'].\n')
    f.write('Eval vm_compute in (length cases, length (filter (fun c => negb (chk c)) cases)).\n')
print(len(cases))
