# Re-implementation of the pyparsing 3.3 semantics used by the two grammars, over the dumped graph.
class Fail(Exception): pass

class Peg:
    def __init__(self, g): self.N=g['nodes']; self.root=g['root']
    def skip_ign(self, n, s, loc):
        if not n['ign']: return loc
        found=True; last=loc
        while found:
            found=False
            for i in n['ign']:
                try:
                    while True:
                        loc,_=self.parse(i, s, loc, True)
                        found=True
                except Fail: pass
            if loc==last: break
            last=loc
        return loc
    def pre(self, i, s, loc):
        n=self.N[i]
        if n['t']=='StringStart':
            return loc  # PositionToken? StringStart uses default preParse
        loc=self.skip_ign(n, s, loc)
        if n['skip']:
            ws=n['ws']
            while loc < len(s) and s[loc] in ws: loc+=1
        return loc
    def parse(self, i, s, loc, callpre=True):
        n=self.N[i]
        if callpre and n['callPre']:
            if n['t']=='StringStart': pl=self.pre_default(i,s,loc)
            else: pl=self.pre(i, s, loc)
        else: pl=loc
        if n['mayIndexError'] or pl >= len(s):
            try: loc,toks=self.impl(i, s, pl)
            except IndexError: raise Fail(len(s))
        else:
            loc,toks=self.impl(i, s, pl)
        t=n['t']
        if t=='Group': toks=[toks]
        elif t=='Suppress': toks=[]
        elif t=='Combine': toks=[n['join'].join(self.flat(toks))]
        for tag in n['tags']:
            toks=[tag]+toks
        return loc,toks
    def pre_default(self,i,s,loc):
        n=self.N[i]
        loc=self.skip_ign(n, s, loc)
        if n['skip']:
            ws=n['ws']
            while loc < len(s) and s[loc] in ws: loc+=1
        return loc
    def flat(self, toks):
        out=[]
        for x in toks:
            if isinstance(x,list): out+=self.flat(x)
            else: out.append(x)
        return out
    def impl(self, i, s, loc):
        n=self.N[i]; t=n['t']; K=n['kids']
        if t=='And':
            loc,res=self.parse(K[0], s, loc, False)
            res=list(res)
            for k in K[1:]:
                loc,tk=self.parse(k, s, loc, True)
                res+=tk
            return loc,res
        if t=='MatchFirst':
            for k in K:
                try: return self.parse(k, s, loc, True)
                except Fail: pass
            raise Fail(loc)
        if t=='Opt':
            try: return self.parse(K[0], s, loc, False)
            except Fail: return loc,[]
        if t in ('OneOrMore','ZeroOrMore'):
            try:
                loc,res=self.parse(K[0], s, loc, True)
            except Fail:
                if t=='ZeroOrMore': return loc,[]
                raise
            res=list(res)
            try:
                while True:
                    pl=self.skip_ign(n, s, loc) if n['ign'] else loc
                    loc,tk=self.parse(K[0], s, pl, True)
                    res+=tk
            except Fail: pass
            return loc,res
        if t in ('Group','Suppress','Combine','Forward','DelimitedList'):
            return self.parse(K[0], s, loc, False)
        if t=='Word':
            if s[loc] not in n['init']: raise Fail(loc)
            st=loc; loc+=1; mx=min(st+n['max'], len(s))
            while loc<mx and s[loc] in n['body']: loc+=1
            if loc-st < n['min']: raise Fail(st)
            return loc,[s[st:loc]]
        if t=='Literal':
            if s[loc]==n['match'][0] and s.startswith(n['match'], loc): return loc+len(n['match']),[n['match']]
            raise Fail(loc)
        if t=='_SingleCharLiteral':
            if s[loc]==n['match']: return loc+1,[n['match']]
            raise Fail(loc)
        if t=='White':
            if s[loc] not in n['chars']: raise Fail(loc)
            st=loc; loc+=1; mx=min(st+n['max'], len(s))
            while loc<mx and s[loc] in n['chars']: loc+=1
            if loc-st<n['min']: raise Fail(st)
            return loc,[s[st:loc]]
        if t=='LineEnd':
            if loc<len(s):
                if s[loc]=='\n': return loc+1,['\n']
                raise Fail(loc)
            elif loc==len(s): return loc+1,[]
            raise Fail(loc)
        if t=='StringStart':
            if loc!=0 and loc!=self.pre_default(i, s, 0): raise Fail(loc)
            return loc,[]
        if t=='StringEnd':
            if loc<len(s): raise Fail(loc)
            if loc==len(s): return loc+1,[]
            return loc,[]
        if t=='Regex':
            assert n['pattern']=='#.*'
            if loc<len(s) and s[loc]=='#':
                e=loc
                while e<len(s) and s[e]!='\n': e+=1
                return e,[s[loc:e]]
            raise Fail(loc)
        raise NotImplementedError(t)
    def parse_string(self, s):
        s=s.expandtabs()
        try:
            loc,toks=self.parse(self.root, s, 0, True)
        except RecursionError: raise
        return toks
