import warnings; warnings.simplefilter('ignore')
import re, random, sys
sys.setrecursionlimit(10000)
from pyparsing import ParseException
from pegdump import dump
from peg import Peg, Fail
from dsdobjects.dsdparser.pil_parser import pil_document_setup, parse_pil_string
from dsdobjects.dsdparser.seesaw_parser import ssw_document_setup, parse_seesaw_string
def corpus(path):
    src=open(path).read()
    out=[]
    for m in re.finditer(r'parse_(?:pil|seesaw)_string\(\s*("""(?:.|\n)*?"""|"(?:[^"\\]|\\.)*"|\'(?:[^\'\\]|\\.)*\')', src):
        out.append(eval(m.group(1)))
    for m in re.finditer(r'example = ("""(?:.|\n)*?""")', src): out.append(eval(m.group(1)))
    return out
def run(setup, real, base, n, seed):
    d=setup(); d.streamline(); P=Peg(dump(d))
    rnd=random.Random(seed)
    alphabet=sorted(set(''.join(base)))+list(' \t\n#*()[]{}=:+-.,@/^_')
    bad=0; ok=0; fails=0
    cases=list(base)
    for _ in range(n):
        s=rnd.choice(base)
        k=rnd.randint(0,4)
        s=list(s)
        for _ in range(k):
            op=rnd.random()
            if not s: break
            p=rnd.randrange(len(s))
            if op<0.3: del s[p]
            elif op<0.6: s.insert(p, rnd.choice(alphabet))
            elif op<0.8: s[p]=rnd.choice(alphabet)
            else:
                q=rnd.randrange(len(s)); s[p],s[q]=s[q],s[p]
        cases.append(''.join(s))
        if rnd.random()<0.3 and len(cases)>2:
            cases.append(rnd.choice(cases)+'\n'+rnd.choice(cases))
    for s in cases:
        try: a=real(s)
        except ParseException: a='FAIL'
        try: b=P.parse_string(s)
        except Fail: b='FAIL'
        if a!=b:
            bad+=1
            if bad<=8: print('DIFF',repr(s),'\n   real',a,'\n   mine',b)
        elif a=='FAIL': fails+=1
        else: ok+=1
    print(setup.__name__, 'cases',len(cases),'agree-ok',ok,'agree-fail',fails,'DIFF',bad)
pil=corpus('/repo/tests/dsdparser/test_pil_parser.py')+[l for l in open('/repo/tests/test_objectio.py').read().split('\n') if '=' in l and not l.strip().startswith(('assert','out','x ','A ','I','d','with','self','doms','for'))]
ssw=corpus('/repo/tests/dsdparser/test_seesaw_parser.py')
print(len(pil),len(ssw))
run(pil_document_setup, parse_pil_string, pil, int(sys.argv[1]), 1)
run(ssw_document_setup, parse_seesaw_string, ssw, int(sys.argv[1]), 2)
