# Reference model of ComplexS construction / lookup / drop / turns (planned Gallina shape), vs implementation.
import itertools, gc, sys, random
import warnings; warnings.simplefilter('ignore')
class Err(Exception):
    def __init__(s,kind,existing=None): s.kind=kind; s.existing=existing
def strands(seq):
    out=[[]]
    for x in seq:
        if x=='+': out.append([])
        else: out[-1].append(x)
    return out
def rot_once(seq, sst):
    # independent: via matching on flat indices
    if '+' not in seq: return list(seq), list(sst)
    p=seq.index('+')
    st=[]; partner={}
    for i,c in enumerate(sst):
        if c=='(': st.append(i)
        elif c==')':
            j=st.pop(); partner[i]=j; partner[j]=i
    n=len(sst); new=lambda i: i-(p+1) if i>p else i+(n-p)
    out=[None]*n
    for i,c in enumerate(sst):
        if i==p: continue
        if c in '()':
            a,b=new(i),new(partner[i])
            out[a]='(' if a<b else ')'
        else: out[new(i)]=c
    out[n-p-1]='+'
    return seq[p+1:]+['+']+seq[:p], out
def wrap(x,m): return (x%m+m)%m
class St:
    def __init__(s):
        s.objs=[]      # dict(name, canon, turns, seq, sst, alive)
        s.names={}; s.canon={}; s.roots=[None,None]; s.ID=1; s.PREFIX='c'
def collect(st):
    live=set(x for x in st.roots if x is not None)
    for i,o in enumerate(st.objs):
        if o['alive'] and i not in live: o['alive']=False
    st.names={k:v for k,v in st.names.items() if st.objs[v]['alive']}
    st.canon={k:v for k,v in st.canon.items() if st.objs[v]['alive']}
def identifiers(st, seq, sst, name, prefix):
    if seq is None:
        if name is None: raise Err('ObjectInitError')
        return None,name,{}
    if name is None: name=f'{st.PREFIX}{st.ID}' if prefix is None else f'{prefix}{st.ID}'
    if len(seq)!=len(sst): raise Err('ObjectInitError')
    n=len([s for s in strands(seq) if s])   # groupby drops empty strands
    cdict={}; rseq,rstr=list(seq),list(sst); canon=None
    for e in range(n):
        key=(tuple(rseq),tuple(rstr))
        if key in st.canon: canon=key; turns=e; break
        cdict[key]=e
        rseq,rstr=rot_once(rseq,rstr)
    else:
        canon=sorted(cdict)[0]; turns=cdict[canon]
    turns=wrap(-turns,n)
    return canon,name,{'canon':canon,'turns':turns,'rcplxs':list(cdict)}
def call(st, seq, sst, name=None, prefix=None):
    canon,nm,kw=identifiers(st,seq,sst,name,prefix)
    S=None
    if nm and canon:
        if nm in st.names or canon in st.canon:
            oN=st.names.get(nm); oC=st.canon.get(canon)
            if oN is None: raise Err('SingletonError',oC)
            elif oC is None: raise Err('SingletonError')
            if oN!=oC: raise Err('SingletonError')
            S=oN
    elif nm:
        if nm not in st.names: raise Err('SingletonError')
        S=st.names[nm]
    if S is None:
        if name is None:
            name=f'{st.PREFIX}{st.ID}' if prefix is None else f'{prefix}{st.ID}'; st.ID+=1
        st.objs.append(dict(name=name,canon=kw['canon'],turns=kw['turns'],seq=list(seq),sst=list(sst),alive=True)); S=len(st.objs)-1
        for k in kw['rcplxs']: st.canon[k]=S
        st.names[nm]=S; st.canon[canon]=S
    return S
def view(o): return (o['name'],o['canon'],o['turns'],tuple(o['seq']),tuple(o['sst']))
def op_model(st,op):
    try:
        if op[0]=='new':
            _,slot,seq,sst,name=op
            o=call(st,seq,sst,name); st.roots[slot]=o; collect(st); return ('ok',view(st.objs[o]))
        if op[0]=='get':
            o=call(st,None,None,op[2]); st.roots[op[1]]=o; collect(st); return ('ok',view(st.objs[o]))
        if op[0]=='drop': st.roots[op[1]]=None; collect(st); return ('ok',)
        if op[0]=='turns':
            if st.roots[op[1]] is None: return ('skip',)
            o=st.objs[st.roots[op[1]]]; n=len(strands(o['seq']))
            t=wrap(-o['turns']+op[2],n); x,y=o['seq'],o['sst']
            for _ in range(t): x,y=rot_once(x,y)
            o['seq'],o['sst'],o['turns']=x,y,wrap(op[2],n); return ('ok',view(o))
    except Err as e:
        collect(st)
        return ('err',e.kind,None if e.existing is None else view(st.objs[e.existing]))
def snap_model(st):
    return (sorted((k,st.objs[v]['name']) for k,v in st.names.items()), sorted((k,st.objs[v]['name']) for k,v in st.canon.items()),
            [None if r is None else view(st.objs[r]) for r in st.roots], [[(a is not None and a==b) for b in st.roots] for a in st.roots], st.ID)
from dsdobjects.base_classes import ComplexS, DomainS, ObjectInitError
from dsdobjects import SingletonError, clear_singletons
def iview(o): return (o.name,o.canonical_form,o.turns,tuple(map(str,o.sequence)),tuple(o.structure))
def op_impl(slots,op,D):
    try:
        if op[0]=='new':
            _,slot,seq,sst,name=op
            kw={} if name is None else {'name':name}
            slots[slot]=ComplexS([D[x] if x!='+' else '+' for x in seq], list(sst), **kw); return ('ok',iview(slots[slot]))
        if op[0]=='get': slots[op[1]]=ComplexS(None,None,op[2]); return ('ok',iview(slots[op[1]]))
        if op[0]=='drop': slots[op[1]]=None; return ('ok',)
        if op[0]=='turns':
            if slots[op[1]] is None: return ('skip',)
            slots[op[1]].turns=op[2]; return ('ok',iview(slots[op[1]]))
    except SingletonError as e: return ('err','SingletonError',None if e.existing is None else iview(e.existing))
    except ObjectInitError: return ('err','ObjectInitError',None)
    except Exception as e: return ('err',type(e).__name__,None)
def snap_impl(slots):
    return (sorted((k,v.name) for k,v in ComplexS._instanceNames.items()), sorted((k,v.name) for k,v in ComplexS._instanceCanon.items()),
            [None if r is None else iview(r) for r in slots], [[(a is not None and a is b) for b in slots] for a in slots], ComplexS.ID)
if __name__=='__main__':
    gc.disable()
    D={x:DomainS(x,5) for x in ('a','b')}
    cx=[(list('a+a'),list('.+.')),(list('a+a+a'),list('(+)+.')),(list('ab+b+a'),list('((+)+)')),(list('a+b'),list('.+.')),(list('a'),list('.'))]
    allrot=[]
    for seq,sst in cx:
        x,y=seq,sst
        for _ in range(len(strands(seq))):
            if (x,y) not in allrot: allrot.append((x,y))
            x,y=rot_once(x,y)
    ops=[]
    for slot in (0,1):
        for seq,sst in allrot:
            for name in (None,'c1','X'):
                ops.append(('new',slot,seq,sst,name))
        for name in ('c1','X'): ops.append(('get',slot,name))
        ops.append(('drop',slot))
        for v in (-1,0,1,2,5): ops.append(('turns',slot,v))
    print(len(ops),'ops')
    rnd=random.Random(7); N=int(sys.argv[1]); L=int(sys.argv[2]); n=bad=0
    for h in range(N):
        clear_singletons(ComplexS); ComplexS.ID=1
        st=St(); slots=[None,None]
        hist=[rnd.choice(ops) for _ in range(L)]
        for k,op in enumerate(hist):
            a=op_model(st,op); b=op_impl(slots,op,D); sa=snap_model(st); sb=snap_impl(slots); n+=1
            if a!=b or sa!=sb:
                bad+=1
                if bad<=4: print('DIFF',hist[:k+1],'\n  model',a,'\n  impl ',b,'\n',sa,'\n',sb)
                break
    print('steps',n,'bad',bad)
