# Reference (executable) model of the DomainS part of the registry machine, in the shape planned for Gallina.
import itertools, copy, gc, sys
class St:
    def __init__(s):
        s.objs=[]            # [name,length,alive]
        s.names={}; s.canon={}
        s.roots=[None,None,None]
        s.ID=1
CUT,SH,LO=8,5,15
class Err(Exception):
    def __init__(s,kind,existing=None): s.kind=kind; s.existing=existing
def collect(st, held=()):
    live=set(x for x in st.roots if x is not None)|set(held)
    for i,o in enumerate(st.objs):
        if o[2] and i not in live:
            o[2]=False
    st.names={k:v for k,v in st.names.items() if st.objs[v][2]}
    st.canon={k:v for k,v in st.canon.items() if st.objs[v][2]}
def identifiers(st, name, length, prefix, dtype, fuel):
    if fuel==0: raise Err('OutOfFuel')
    if name is None:
        if prefix is None: prefix='d'
        name=f'{prefix}{st.ID}'
    if length is None:
        length = SH if dtype=='short' else LO if dtype=='long' else None
    elif dtype and not ((dtype=='short')==(length<=CUT)):
        raise Err('ObjectInitError')
    cname = name[:-1] if name[-1]=='*' else name+'*'
    newargs={}
    if length is None and name[-1]=='*':
        try:
            o=call(st,cname,None,None,None,fuel-1)   # len(cls(cname, length=None))
            length=st.objs[o][1]; collect(st)           # temp (if any) released
            newargs={'length':length}
        except Err as e:
            if e.kind!='SingletonError': raise
    elif length and name[-1]!='*':
        clength=length
        try:
            o=call(st,cname,None,None,None,fuel-1); clength=st.objs[o][1]; collect(st)
            o=call(st,cname,length,None,None,fuel-1); collect(st)
        except Err as e:
            if e.kind!='SingletonError': raise
            collect(st)
            if clength!=length: raise Err('SingletonError')
    return (((name,length),name,newargs) if length is not None else (None,name,{}))
def call(st, name, length, prefix, dtype, fuel=8):
    canon,nm,kw=identifiers(st,name,length,prefix,dtype,fuel)
    if 'length' in kw: length=kw['length']
    S=None
    if nm and canon:
        if nm in st.names or canon in st.canon:
            oN=st.names.get(nm); oC=st.canon.get(canon)
            if oN is None: raise Err('SingletonError',oC)
            elif oC is None: raise Err('SingletonError')
            if oN!=oC: raise Err('SingletonError')
            S=oN
    elif nm:
        if nm not in st.names: raise Err('SingletonError')
        S=st.names[nm]
    else:
        if canon not in st.canon: raise Err('SingletonError')
        S=st.canon[canon]
    if S is None:
        # __init__
        if name is None:
            if prefix is None: prefix='d'
            name=f'{prefix}{st.ID}'; st.ID+=1
        if length is None:
            length = SH if dtype=='short' else LO if dtype=='long' else None
        st.objs.append([name,length,True]); S=len(st.objs)-1
        st.names[nm]=S; st.canon[canon]=S
    return S
def op_model(st, op):
    try:
        if op[0]=='new':
            _,slot,name,length,dtype=op
            o=call(st,name,length,None,dtype)
            st.roots[slot]=o; collect(st); return ('ok',st.objs[o][0],st.objs[o][1])
        if op[0]=='inv':
            _,src,dst=op
            if st.roots[src] is None: return ('skip',)
            d=st.objs[st.roots[src]]
            cn = d[0][:-1] if d[0][-1]=='*' else d[0]+'*'
            o=call(st,cn,d[1],None,None)
            st.roots[dst]=o; collect(st); return ('ok',st.objs[o][0],st.objs[o][1])
        if op[0]=='drop':
            st.roots[op[1]]=None; collect(st); return ('ok',)
    except Err as e:
        collect(st)
        ex=None if e.existing is None else (st.objs[e.existing][0],st.objs[e.existing][1])
        return ('err',e.kind,ex)
def snap_model(st):
    return (sorted((k,tuple(st.objs[v][:2])) for k,v in st.names.items()),
            sorted((k,tuple(st.objs[v][:2])) for k,v in st.canon.items()),
            [None if r is None else tuple(st.objs[r][:2]) for r in st.roots],
            [[ (a is not None and a==b) for b in st.roots] for a in st.roots], st.ID)
# ---------------- implementation side
import warnings; warnings.simplefilter('ignore')
from dsdobjects.base_classes import DomainS, ObjectInitError
from dsdobjects import SingletonError, clear_singletons
def op_impl(slots, op):
    try:
        if op[0]=='new':
            _,slot,name,length,dtype=op
            kw={k:v for k,v in (('name',name),('length',length),('dtype',dtype)) if v is not None}; slots[slot]=DomainS(**kw); o=slots[slot]; return ('ok',o.name,o.length)
        if op[0]=='inv':
            _,src,dst=op
            if slots[src] is None: return ('skip',)
            slots[dst]=~slots[src]; o=slots[dst]; return ('ok',o.name,o.length)
        if op[0]=='drop':
            slots[op[1]]=None; return ('ok',)
    except SingletonError as e:
        ex=None if e.existing is None else (e.existing.name,e.existing.length)
        return ('err','SingletonError',ex)
    except ObjectInitError: return ('err','ObjectInitError',None)
    except Exception as e: return ('err',type(e).__name__,None)
def snap_impl(slots):
    return (sorted((k,(v.name,v.length)) for k,v in DomainS._instanceNames.items()),
            sorted((k,(v.name,v.length)) for k,v in DomainS._instanceCanon.items()),
            [None if r is None else (r.name,r.length) for r in slots],
            [[(a is not None and a is b) for b in slots] for a in slots], DomainS.ID)
def alphabet():
    ops=[]
    for slot in (0,1):
        for name in ('a','a*',None):
            for length in (None,5,9):
                for dtype in (None,'short'):
                    ops.append(('new',slot,name,length,dtype))
        ops.append(('drop',slot))
    for s,d in ((0,1),(1,0),(0,0),(0,2)): ops.append(('inv',s,d))
    return ops
if __name__=='__main__':
    gc.disable()
    depth=int(sys.argv[1]); ops=alphabet(); print(len(ops),'ops')
    n=bad=0
    for hist in itertools.product(ops,repeat=depth):
        clear_singletons(DomainS); DomainS.ID=1
        st=St(); slots=[None,None,None]
        for k,op in enumerate(hist):
            a=op_model(st,op); b=op_impl(slots,op)
            sa=snap_model(st); sb=snap_impl(slots)
            n+=1
            if a!=b or sa!=sb:
                bad+=1
                if bad<=5: print('DIFF',hist[:k+1],'\n  model',a,sa,'\n  impl ',b,sb)
                break
        slots=None
    print('steps',n,'bad',bad)
