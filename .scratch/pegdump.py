import warnings; warnings.simplefilter('ignore')
import pyparsing as pp

def find_tag(fn):
    # parse actions are wrapped by pyparsing; search closures for the user lambda's 'tag' cell
    seen=set(); stack=[fn]
    while stack:
        f=stack.pop()
        if id(f) in seen or f is None: continue
        seen.add(id(f))
        code=getattr(f,'__code__',None)
        clo=getattr(f,'__closure__',None) or ()
        if code is not None and 'tag' in code.co_freevars:
            return clo[code.co_freevars.index('tag')].cell_contents
        for c in clo:
            try: v=c.cell_contents
            except ValueError: continue
            if callable(v): stack.append(v)
        w=getattr(f,'__wrapped__',None)
        if w: stack.append(w)
    return None

def dump(root):
    nodes=[]; index={}
    def go(e):
        if id(e) in index: return index[id(e)]
        i=len(nodes); index[id(e)]=i; nodes.append(None)
        t=type(e).__name__
        n={'t':t,'skip':bool(e.skipWhitespace),'ws':''.join(sorted(e.whiteChars)),
           'callPre':bool(getattr(e,'callPreparse',True)),'mayIndexError':bool(getattr(e,'mayIndexError',False))}
        n['ign']=[go(x) for x in e.ignoreExprs]
        tags=[find_tag(f) for f in e.parseAction]
        if any(x is None for x in tags): raise ValueError('unknown parse action on '+str(e))
        n['tags']=tags
        if t in ('Literal','_SingleCharLiteral'): n['match']=e.match
        elif t=='Word':
            n['init']=''.join(sorted(e.initChars)); n['body']=''.join(sorted(e.bodyChars)); n['min']=e.minLen; n['max']=min(e.maxLen,10**9)
            assert not e.asKeyword
        elif t=='White':
            n['chars']=''.join(sorted(e.matchWhite)); n['min']=e.minLen; n['max']=min(e.maxLen,10**9)
        elif t=='Regex':
            n['pattern']=e.pattern
        elif t=='Combine':
            n['adjacent']=bool(e.adjacent); n['join']=e.joinString
        elif t in ('And','MatchFirst','Group','Suppress','Opt','ZeroOrMore','OneOrMore','Forward','LineEnd','StringStart','StringEnd','DelimitedList'):
            pass
        else: raise ValueError('unmodelled element class '+t)
        if t in ('OneOrMore','ZeroOrMore'): assert e.not_ender is None
        if hasattr(e,'exprs'): n['kids']=[go(x) for x in e.exprs]
        elif getattr(e,'expr',None) is not None: n['kids']=[go(e.expr)]
        else: n['kids']=[]
        nodes[i]=n
        return i
    r=go(root)
    return {'root':r,'nodes':nodes}

if __name__=='__main__':
    from dsdobjects.dsdparser.pil_parser import pil_document_setup
    from dsdobjects.dsdparser.seesaw_parser import ssw_document_setup
    import json, collections
    for f in (pil_document_setup, ssw_document_setup):
        d=f(); d.streamline()
        g=dump(d)
        print(f.__name__, len(g['nodes']), collections.Counter(n['t'] for n in g['nodes']))
        print({(n['t'],n['skip'],n['ws']) for n in g['nodes']})
        for n in g['nodes']:
            if n['t']=='Regex': print(n)
